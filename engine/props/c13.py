"""C13 - numeric literals (narrow): the value stage of typed / annotated integer literals and of based literals.

`123u64` is evaluated as integer() = str::parse::<f64>() of the digits, then ConvertKind(F64 -> K).  For an integer
numeral n < 2^128, std's correctly rounded parse yields `n as f64` (contract of std, stated as an assumption); the harness
takes a symbolic n, forms f = n as f64 and runs the real conversion struct the dispatch picks for (f64, K):
n fits K => the literal must evaluate to n; n does not fit => the documented clamp (K::MAX).
Based literals: dec/hex/oct/binary() on a symbolic two-character token.
"""
from ..model import H
from .common import *

WHERE = ("interpreter", "src/literals.rs")
from .c12 import SLICE as C12_SLICE
SLICE = C12_SLICE + ",i64"


def gen_typed(t, tier):
    wide = "u128" if BITS[t] == 128 else "u64"
    b = ["let n: %s = kani::any();" % wide,
         "let f: f64 = n as f64;      // value of integer(): std's correctly rounded decimal parse of the numeral of n",
         "let a = Ref::new(f);",
         "let fx = crate::stdlib::convert::ConvertScalarToScalar::<f64, %s> { arg: a.clone(), out: Ref::new(0 as %s) };" % (t, t),
         "fx.solve();", "let out: %s = *fx.out.borrow();" % t,
         "if (n as u128) <= (%s::MAX as u128) { kani::cover!((n as u128) > (%s::MAX as u128) / 2, \"VP:reached-fits\"); assert!((out as u128) == (n as u128), \"VP:literal-evaluates-to-other-number\"); }" % (t, t),
         "else { assert!(out == %s::MAX, \"VP:overflowing-literal-not-clamped\"); }" % t,
         "kani::cover!(true, \"VP:reached\");", "forget(fx); forget(a);"]
    h = H("c13_typed_integer_%s" % t, "    " + "\n    ".join(b), WHERE, domain="accept", key="typed-integer/%s" % t,
          desc="the numeral of any n (< 2^%d) with suffix %s: evaluates to n when n fits %s, to %s::MAX otherwise"
               % (128 if wide == "u128" else 64, t, t, t),
          functions=["ConvertScalarToScalar<f64,%s>::solve (picked by impl_conversion_fxn for (F64, %s)) composed with `n as f64` for integer()" % (t, t.upper())],
          bounds="all n in %s" % wide, unwind=4, tier=tier, assumptions=["str::parse::<f64> of an integer numeral n returns n as f64 (std contract: correctly rounded)"])
    h.slice = SLICE
    return h


def gen_based(fn, radix, alphabet, tier):
    # two symbolic characters from the radix alphabet
    conds = " || ".join("(c == '%s')" % ch for ch in alphabet)
    b = ["let c0: char = kani::any(); let c1: char = kani::any();",
         "kani::assume({ let c = c0; %s }); kani::assume({ let c = c1; %s });" % (conds, conds),
         "let tok = Token { kind: TokenKind::Digit, chars: vec![c0, c1], src_range: SourceRange::default() };",
         "let v = %s(&tok);" % fn,
         "let want: i64 = (c0.to_digit(%d).unwrap() as i64) * %d + (c1.to_digit(%d).unwrap() as i64);" % (radix, radix, radix),
         "match &v { Value::I64(x) => { assert!(*x.borrow() == want, \"VP:literal-evaluates-to-other-number\"); }, _ => { assert!(false, \"VP:wrong-literal-kind\"); } }",
         "kani::cover!(true, \"VP:reached\");", "forget(v); forget(tok);"]
    h = H("c13_based_%s" % fn, "    " + "\n    ".join(b), WHERE, domain="accept", key="based/%s" % fn,
          desc="%s() on any two-digit token over the base-%d alphabet evaluates to its positional value" % (fn, radix),
          functions=["%s (src/interpreter/src/literals.rs)" % fn, "i64::from_str_radix"], bounds="two digits", unwind=8, tier=tier)
    h.slice = SLICE
    return h


def gen_rational(domain, tier):
    """rational() on one-digit numerator and denominator tokens (64-bit gcd + two 64-bit divisions inside Ratio::new: two-digit
    numerators ran CBMC out of its 10 GB cap)"""
    dig = " || ".join("(c == '%d')" % d for d in range(10))
    b = ["let a0: char = kani::any(); let b0: char = kani::any();",
         "kani::assume({ let c = a0; %s }); kani::assume({ let c = b0; %s });" % (dig, dig),
         "let n: u8 = a0.to_digit(10).unwrap() as u8; let d: u8 = b0.to_digit(10).unwrap() as u8;",
         "kani::assume(%s);" % ("d != 0" if domain == "accept" else "d == 0"),
         "let nt = Token { kind: TokenKind::Digit, chars: vec![a0], src_range: SourceRange::default() };",
         "let dt = Token { kind: TokenKind::Digit, chars: vec![b0], src_range: SourceRange::default() };",
         "let pair = (nt, dt);",
         "kani::cover!(true, \"VP:reached-call\");",
         "let v = rational(&pair);"]
    if domain == "accept":
        b += ["match &v { Value::R64(x) => { let r = *x.borrow(); let (p64, q64) = (*r.numer(), *r.denom());",
              "    assert!(p64 >= 0 && p64 <= 9 && q64 >= 1 && q64 <= 9, \"VP:literal-evaluates-to-other-number\");",
              "    let (p, q) = (p64 as u8, q64 as u8);",
              "    assert!(p * d == n * q, \"VP:literal-evaluates-to-other-number\");",
              "    let mut g = 2u8; let mut reduced = true; while g <= 9 { if p % g == 0 && q % g == 0 { reduced = false; } g += 1; }",
              "    assert!(reduced, \"VP:rational-literal-not-reduced\");",
              "    kani::cover!(p != n, \"VP:reached-reduction\"); },",
              "  _ => { assert!(false, \"VP:wrong-literal-kind\"); } }",
              "kani::cover!(true, \"VP:reached\");"]
    else:
        b += ["assert!(false, \"VP:accepted-rational-with-zero-denominator\");"]
    b += ["forget(v); forget(pair);"]
    h = H("c13_rational_%s" % domain, "    " + "\n    ".join(b), WHERE, domain=domain, key="rational/%s" % domain,
          desc="rational() on any one-digit numerator and one-digit %s denominator: %s" % ("non-zero" if domain == "accept" else "zero",
               "the reduced fraction n/d (cross-multiplied equality, positive denominator, no common factor)" if domain == "accept" else "rejected (panic -> error), never a value"),
          functions=["rational (src/interpreter/src/literals.rs)", "str::parse::<i64>", "num_rational::Ratio::new"], bounds="numerator 0-9, denominator 0-9",
          unwind=12, tier=tier, solver="kissat")
    h.slice = SLICE + ",rational,r64"
    return h


def plan(tier, seed):
    hs = []
    hs.append(gen_rational("accept", "quick"))
    hs.append(gen_rational("reject", "quick"))
    for t in ["u8", "i8", "u16", "i16", "u32", "i32"]:
        hs.append(gen_typed(t, "quick" if t in ("u8", "i16", "u32") else "thorough"))
    for t in ["u64", "i64", "u128", "i128"]:
        hs.append(gen_typed(t, "quick" if t in ("u64",) else "thorough"))
    hs.append(gen_based("hex", 16, "0123456789abcdefABCDEF", "quick"))
    hs.append(gen_based("binary", 2, "01", "quick"))
    hs.append(gen_based("oct", 8, "01234567", "thorough"))
    hs.append(gen_based("dec", 10, "0123456789", "thorough"))
    return {
        "harnesses": hs,
        "explanation": "Kani/CBMC over the value stage of typed integer literals (n as f64 -> real f64->K conversion struct) for every integer "
                       "kind with the denoted integer n symbolic, over dec/hex/oct/binary() on symbolic two-digit tokens and over rational() on a symbolic "
                       "one-digit numerator and denominator (reduced fraction; zero denominator rejected)",
        "bounds": "n: all u64 (kinds <= 64 bit) / all u128 (128-bit kinds); based literals: two digits",
        "outside": ["decimal floats and scientific notation (dec2flt and libm pow are not modelled bit-precisely by CBMC)",
                    "spelling -> token (src/syntax/src/literals.rs is parser code)", "complex literals", "rational literals beyond one-digit tokens", "negated literals",
                    "underscores in digit strings", "which conversion struct impl_conversion_fxn picks (decided in C12 L2 for a sample)"],
        "caps": {"quick_timeout": 600, "thorough_timeout": 1200},
    }
