"""Helpers shared by the property generators: kinds, storage forms, symbolic value construction."""
import re, os
from .. import ws

INTS = ["i8", "i16", "i32", "i64", "i128", "u8", "u16", "u32", "u64", "u128"]
SIGNED = ["i8", "i16", "i32", "i64", "i128"]
UNSIGNED = ["u8", "u16", "u32", "u64", "u128"]
FLOATS = ["f32", "f64"]
BITS = {"i8": 8, "i16": 16, "i32": 32, "i64": 64, "i128": 128, "u8": 8, "u16": 16, "u32": 32, "u64": 64, "u128": 128,
        "f32": 32, "f64": 64}
# Value variant name -> rust element type
VARIANT_TY = {"I8": "i8", "I16": "i16", "I32": "i32", "I64": "i64", "I128": "i128", "U8": "u8", "U16": "u16", "U32": "u32",
              "U64": "u64", "U128": "u128", "F32": "f32", "F64": "f64", "R64": "R64", "C64": "C64", "Bool": "bool",
              "String": "String"}
TY_VARIANT = {v: k for k, v in VARIANT_TY.items()}


def kind_class(t):
    if t in INTS:
        return "int"
    if t in FLOATS:
        return "float"
    return {"R64": "rational", "C64": "complex", "bool": "bool", "String": "string"}[t]


def read_repo(rel):
    with open(os.path.join(ws.REPO, rel)) as f:
        return f.read()


def macro_arms(text, macro, lib=None):
    """Parse `macro!(Lib, registrar, (args), KIND, target, "feat"; ...)` -> list of (Lib, [(KIND, target, feat)])"""
    out = []
    for m in re.finditer(re.escape(macro) + r"!\s*\(", text):
        i = m.end()
        depth = 1
        j = i
        while depth and j < len(text):
            if text[j] == "(":
                depth += 1
            elif text[j] == ")":
                depth -= 1
            j += 1
        body = text[i:j - 1]
        parts = body.split(";")
        head = parts[0]
        # head: Lib, registrar, (args), K, t, "f"   |  Lib, (arg), K, t, "f"
        hm = re.match(r"\s*(\w+)\s*,(.*)", head, re.S)
        if not hm:
            continue
        libname = hm.group(1)
        arms = []
        first = re.findall(r"(\w+)\s*,\s*(\w+)\s*,\s*\"(\w+)\"", head)
        if first:
            arms.append(first[-1])
        for p in parts[1:]:
            mm = re.findall(r"(\w+)\s*,\s*(\w+)\s*,\s*\"(\w+)\"", p)
            arms.extend(mm)
        out.append((libname, arms))
    return out


# ---------------------------------------------------------------------------------------------
# symbolic element construction.  `sym(t, name)` -> rust statements binding `name: t` to a symbolic value
def sym_stmt(t, name, small=False):
    if t in INTS or t in FLOATS or t == "bool":
        return "let %s: %s = kani::any();" % (name, t)
    if t == "R64":
        # reduced fraction n/d with small numerator and denominator: Ratio::new runs a gcd loop, which is the reason
        # for the stated bound |n| <= 3, 1 <= d <= 3
        return ("let %s: R64 = { let n: i8 = kani::any(); let d: i8 = kani::any(); kani::assume(n >= -3 && n <= 3 && d >= 1 && d <= 3); "
                "R64::new(n as i64, d as i64) };" % name)
    if t == "C64":
        return "let %s: C64 = C64::new(kani::any::<f64>(), kani::any::<f64>());" % name
    if t == "String":
        # strings only exercise dispatch/wiring: one symbolic ASCII byte
        return ("let %s: String = { let b: u8 = kani::any(); kani::assume(b >= 97 && b <= 99); "
                "let mut s = String::new(); s.push(b as char); s };" % name)
    raise ValueError(t)


def sym_array(t, name, n):
    """bind `name: [t; n]` to symbolic elements"""
    if t in INTS or t in FLOATS or t == "bool":
        return "let %s: [%s; %d] = kani::any();" % (name, t, n)
    parts = []
    for i in range(n):
        parts.append(sym_stmt(t, "%s_%d" % (name, i)))
    if t == "String":
        parts.append("let %s: [%s; %d] = [%s];" % (name, t, n, ", ".join("%s_%d.clone()" % (name, i) for i in range(n))))
    else:
        parts.append("let %s: [%s; %d] = [%s];" % (name, t, n, ", ".join("%s_%d" % (name, i) for i in range(n))))
    return "\n    ".join(parts)


def eq_expr(t, a, b):
    """bit-exact equality, NaN == NaN"""
    if t in FLOATS:
        return "(%s.to_bits() == %s.to_bits() || (%s.is_nan() && %s.is_nan()))" % (a, b, a, b)
    if t == "C64":
        return ("((%s.0.re.to_bits() == %s.0.re.to_bits() || (%s.0.re.is_nan() && %s.0.re.is_nan())) && "
                "(%s.0.im.to_bits() == %s.0.im.to_bits() || (%s.0.im.is_nan() && %s.0.im.is_nan())))" % (a, b, a, b, a, b, a, b))
    return "(%s == %s)" % (a, b)


# storage forms of the default (dynamic) configuration
def form_dims(form, shape):
    """shape = (r, c) of the *operand*.  returns (rows, cols)"""
    return shape


def mk_form(form, t, arr, shape):
    """rust expression building the nalgebra object of `form` from array `arr` (column-major order)"""
    r, c = shape
    if form == "S":
        return "%s[0].clone()" % arr
    if form == "RD":
        return "RowDVector::<%s>::from_vec(%s.to_vec())" % (t, arr)
    if form == "VD":
        return "DVector::<%s>::from_vec(%s.to_vec())" % (t, arr)
    if form == "MD":
        return "DMatrix::<%s>::from_vec(%d, %d, %s.to_vec())" % (t, r, c, arr)
    raise ValueError(form)


def mk_default(form, t, shape, default):
    r, c = shape
    if form == "S":
        return default
    if form == "RD":
        return "RowDVector::<%s>::from_element(%d, %s)" % (t, c, default)
    if form == "VD":
        return "DVector::<%s>::from_element(%d, %s)" % (t, r, default)
    if form == "MD":
        return "DMatrix::<%s>::from_element(%d, %d, %s)" % (t, r, c, default)
    raise ValueError(form)


def value_of(form, t, inner):
    """wrap a Ref<...> expression into the Value variant the interpreter would hold"""
    v = TY_VARIANT[t]
    if form == "S":
        return "Value::%s(%s)" % (v, inner)
    m = {"RD": "RowDVector", "VD": "DVector", "MD": "DMatrix"}[form]
    return "Value::Matrix%s(Matrix::%s(%s))" % (v, m, inner)


def default_of(t):
    return {"bool": "false", "String": "String::new()", "R64": "R64::default()", "C64": "C64::default()"}.get(t, "0 as %s" % t)


def idx(form, shape, i, j):
    """column-major linear index into the backing array of an operand of `form` for output position (i,j) (broadcast)"""
    r, c = shape
    if form == "S":
        return 0
    if form == "RD":
        return j
    if form == "VD":
        return i
    return i + j * r


def extract_dispatch_fn(src, name, rel):
    """Text of the private dispatch function `name`, re-declared as `vp_<name>` taking `&[Value]` instead of `Vec<Value>`.

    Why: a `Vec<Value>` argument lives in a heap buffer that CBMC models as bytes; the enum discriminants read back from it are
    no longer constants for symbolic execution, which then explores every `Value` variant in the error arm and in the drop glue
    of the vector (ValueKind::clone / drop recursion: no verdict in 20 minutes).  The body is copied verbatim from /repo at
    generation time; the only edits are the parameter type and `ixes.as_slice()` -> `ixes` (a slice of a slice).  Returns
    (rust_text, sha256_of_original_item)."""
    import hashlib
    m = re.search(r"^fn\s+%s\s*\(([^)]*)\)\s*->\s*MResult<Box<dyn MechFunction>>\s*\{" % re.escape(name), src, re.M)
    if not m:
        raise SystemExit("INCONCLUSIVE: dispatch function %s not found in %s" % (name, rel))
    i = m.end() - 1
    depth, j = 0, i
    while True:
        ch = src[j]
        if ch == "{":
            depth += 1
        elif ch == "}":
            depth -= 1
            if depth == 0:
                break
        j += 1
    item = src[m.start():j + 1]
    params = m.group(1).replace("Vec<Value>", "[Value]")
    if "&[Value]" not in params:
        params = params.replace("[Value]", "&[Value]")
    body = src[i:j + 1].replace("ixes.as_slice()", "ixes")
    text = "  pub fn vp_%s(%s) -> MResult<Box<dyn MechFunction>> %s\n" % (name, params, body)
    return text, hashlib.sha256(item.encode()).hexdigest()


FEAT_OF = {"R64": "rational", "C64": "complex", "bool": "bool", "String": "string"}
_CHAIN = re.compile(r'^(?P<ind>\s*)(?P<pre>\.or_else\(\|_\|\s*)?(?P<mac>\w+!)\((?P<args>.*?),\s*(?P<kind>\w+)\s*,\s*"(?P<feat>\w+)"\s*\)(?P<post>\))?\s*$')


def cut_kind_chain(text, t):
    """Cut the `first!(.., u8, "u8").or_else(|_| first!(.., u16, "u16")) ...` chains of an extracted dispatch body down to the
    attempts for element kind `t`.

    The assign dispatchers try all 16 element kinds in turn; every failed attempt builds a `MechError` (two `Arc<dyn ..>`, a
    `Vec<ValueKind>`) that the next `or_else` drops.  Attempts for another kind cannot match a sink of kind `t` - each arm
    pattern names `Value::Matrix<Kind>` - so their only effect is that error value, and ~30 of them per call keep symbolic
    execution busy beyond any time limit.  Returns (text, number_of_attempts_removed)."""
    feat = FEAT_OF.get(t, t)
    out, removed, first = [], 0, True
    in_chain = False
    for line in text.split("\n"):
        m = _CHAIN.match(line.rstrip("\r"))
        if not m:
            out.append(line)
            continue
        if m.group("feat") != feat:
            removed += 1
            continue
        call = "%s(%s, %s, \"%s\")" % (m.group("mac"), m.group("args"), m.group("kind"), m.group("feat"))
        if first:
            out.append("%s%s" % (m.group("ind"), call))
            first = False
        else:
            out.append("%s.or_else(|_| %s)" % (m.group("ind"), call))
    return "\n".join(out), removed


SHAPE_IDENT = {"RD": "RowDVector", "VD": "DVector", "MD": "DMatrix"}
_LINK = re.compile(r'^\s*(?:\.or_else\(\|_\|\s*)?(?P<mac>impl_\w+)!\((?P<args>.*?)\)\)?\s*$')


def direct_arms(text, t, sform, suffix, want=""):
    """From a kind-cut dispatch body make the variant that invokes the arm macros of ONE arm family directly for ONE storage form.

    `impl_assign_fxn!(OP, NAME, arg, K, "F")` (which tries every storage form in turn, building and dropping a `MechError` per
    failed attempt) becomes `OP!(NAME, <Shape>, &arg, K, "F")`; links of the or_else chain that belong to another arm family
    (`*_arms` = index arms, `*_arms_b` / `_bu` / `_ub` = mask arms) are removed, because they cannot match and only build and drop
    an error value; the trailing `.map_err(..)`, which replaces the error value, is removed.  What remains is exactly the
    `match` a real call ends up in for a sink of that kind and storage form and an index of that family.  Returns None when the
    function has no link of the wanted family."""
    shape = SHAPE_IDENT[sform]
    i = text.find(".map_err(")
    if i >= 0:
        depth, j = 0, i + len(".map_err")
        while True:
            ch = text[j]
            if ch == "(":
                depth += 1
            elif ch == ")":
                depth -= 1
                if depth == 0:
                    break
            j += 1
        text = text[:i] + text[j + 1:]
    head, calls, tail = [], [], []
    for line in text.split("\n"):
        m = _LINK.match(line.rstrip("\r"))
        if not m:
            (tail if calls else head).append(line)
            continue
        mac, args = m.group("mac"), [a.strip() for a in m.group("args").split(",")]
        if mac == "impl_assign_fxn":
            op = args[0]
            call = "%s!(%s, %s, &arg, %s, %s)" % (op, args[1], shape, args[3], args[4])
        else:
            op = mac
            call = "%s!(%s)" % (mac, ", ".join(args))
        fm = re.search(r"_arms(?:_(\w+))?$", op)
        fam = (fm.group(1) or "") if fm else ""
        if fam == want:
            calls.append(call)
    if not calls:
        return None
    body = ["  " + calls[0]] + ["  .or_else(|_| %s)" % c for c in calls[1:]]
    t2 = "\n".join(head + body + [l for l in tail if l.strip()])
    return re.sub(r"pub fn (vp_\w+)\(", lambda m_: "pub fn %s_%s(" % (m_.group(1), suffix), t2, count=1) + "\n"



def _match_brace(src, i):
    """index of the brace that closes the one at src[i]"""
    depth, j = 0, i
    while True:
        ch = src[j]
        if ch == "{":
            depth += 1
        elif ch == "}":
            depth -= 1
            if depth == 0:
                return j
        j += 1


def extract_macro_arm(src, macro, triple, rel, fname):
    """One arm `(a,b,c) => { .. }` of the `match (nargs,rows,columns)` inside the dispatch macro `macro` (impl_horzcat_arms! /
    impl_vertcat_arms!), re-declared as a function generator

        macro_rules! <fname> { ($f:ident, $kind:ident, $default:expr) => { paste!{ pub fn $f(arguments: &[Value], <binders>: usize)
            -> MResult<Box<dyn MechFunction>> { <the helper fns the macro defines before its match> <arm body, verbatim> } } } }

    Why: called through the whole dispatch function the arm cannot be decided for matrix blocks - the scrutinee values come out of
    `Value::shape()` (a pointer chain through a nested enum payload that CBMC does not constant-fold), so symbolic execution walks
    every arm and every concatenation struct behind the returned `dyn MechFunction`.  The arm body (which operands it extracts, in
    which order, into which struct, with which output allocation) is copied verbatim at generation time; the identifiers bound by
    the arm pattern become the parameters.  NOT covered by such a harness: the computation of (nargs, rows, columns) and the choice
    of the arm.  Returns (rust_text, binders, sha256_of_arm)."""
    import hashlib
    m = re.search(r"macro_rules!\s+%s\s*\{" % re.escape(macro), src)
    if not m:
        raise SystemExit("INCONCLUSIVE: macro %s not found in %s" % (macro, rel))
    mend = _match_brace(src, m.end() - 1)
    body = src[m.end():mend]
    a, b, c = triple
    am = re.search(r"^[ \t]*\(\s*%s\s*,\s*%s\s*,\s*%s\s*\)\s*=>\s*\{" % (re.escape(a), re.escape(b), re.escape(c)), body, re.M)
    if not am:
        raise SystemExit("INCONCLUSIVE: arm (%s,%s,%s) not found in %s of %s" % (a, b, c, macro, rel))
    aend = _match_brace(body, am.end() - 1)
    arm = body[am.end() - 1:aend + 1]
    # helper fns: every `fn name(..) .. {..}` item (with its cfg attribute lines) before `let arguments = $args;`
    k = body.find("let arguments = $args;")
    if k < 0:
        raise SystemExit("INCONCLUSIVE: %s no longer starts with `let arguments = $args;`" % macro)
    head = body[:k]
    helpers = []
    for fm in re.finditer(r"((?:^[ \t]*#\[cfg\([^\n]*\)\][^\n]*\n)*)^[ \t]*fn\s+\w+[^\n{]*\{", head, re.M):
        fe = _match_brace(head, fm.end() - 1)
        helpers.append(head[fm.start():fe + 1])
    binders = [x for x in (a, b, c) if re.fullmatch(r"[a-z_]\w*", x)]
    params = "".join(", %s: usize" % x for x in binders)
    text = ("  macro_rules! %s { ($f:ident, $kind:ident, $default:expr) => { paste!{\n"
            "  pub fn $f(arguments: &[Value]%s) -> MResult<Box<dyn MechFunction>> {\n%s\n%s\n  }\n  }}}\n"
            % (fname, params, "\n".join(helpers), arm))
    return text, binders, hashlib.sha256(arm.encode()).hexdigest()
