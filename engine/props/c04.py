"""C04 - indexed assignment changes exactly the addressed elements.

One inductive step from an arbitrary pre-state: the sink matrix is symbolic, one assignment with a symbolic source and
symbolic index values / vectors / masks runs through the real assign dispatch function
`fn(sink: Value, source: Value, ixes: Vec<Value>)` and the function it builds, and the post-state of the sink cell is
compared element by element with the pre-state: addressed positions hold the source, all others are unchanged, shape
and kind are unchanged.  A sequence of assignments is a sequence of such steps.
"""
from ..model import H
from .common import *
from .c03 import sel_code, MAXSEL, slice_for as c03_slice

WHERE = ("interpreter", "src/stdlib/assign/matrix.rs")

DISPATCH_1D = {"S": "impl_assign_scalar_fxn", "V": "impl_assign_range_fxn", "B": "impl_assign_range_fxn", "A": "impl_assign_all_fxn"}
DISPATCH_2D = {("S", "S"): "impl_assign_scalar_scalar_fxn", ("A", "S"): "impl_assign_all_scalar_fxn", ("S", "A"): "impl_assign_scalar_all_fxn",
               ("V", "V"): "impl_assign_range_range_fxn", ("V", "B"): "impl_assign_range_range_fxn",
               ("B", "V"): "impl_assign_range_range_fxn", ("B", "B"): "impl_assign_range_range_fxn",
               ("A", "V"): "impl_assign_all_range_fxn", ("A", "B"): "impl_assign_all_range_fxn",
               ("V", "A"): "impl_assign_range_all_fxn", ("B", "A"): "impl_assign_range_all_fxn",
               ("V", "S"): "impl_assign_range_scalar_fxn", ("B", "S"): "impl_assign_range_scalar_fxn",
               ("S", "V"): "impl_assign_scalar_range_fxn", ("S", "B"): "impl_assign_scalar_range_fxn"}


def slice_for(t):
    return c03_slice(t)


MACRO_GENERATED = {"impl_assign_all_range_fxn", "impl_assign_range_all_fxn"}   # `fn $name` inside a macro: not extractable


KINDS_USED = ["f64", "u8", "i64"]


def family(forms):
    """arm family of the dispatch chain that handles these index forms: '' (indices), b / bu / ub (masks)"""
    if "B" not in forms:
        return ""
    if len(forms) == 2 and forms[0] == "B" and forms[1] == "V":
        return "bu"
    if len(forms) == 2 and forms[0] == "V" and forms[1] == "B":
        return "ub"
    return "b"


def call(fxn, t, sform, fam=""):
    if fxn in MACRO_GENERATED:
        return "%s(sink, source, ixarr.to_vec())" % fxn
    return "vp_%s_%s_%s%s(sink, source, &ixarr[..])" % (fxn, t.lower(), sform.lower(), fam)


def gen(t, sform, shape, forms, lens, src_kind, domain, tier):
    """src_kind: 'scalar' or 'vector' (1-D V/B forms only: i-th addressed element := i-th source element)"""
    R, C = shape
    N = R * C
    dims = (N,) if len(forms) == 1 else (R, C)
    fxn = DISPATCH_1D[forms[0]] if len(forms) == 1 else DISPATCH_2D[forms]
    b = [sym_array(t, "old", N)]
    b.append("let sc = Ref::new(%s);" % mk_form(sform, t, "old", shape))
    b.append("let sink = %s;" % value_of(sform, t, "sc.clone()"))
    for pos, (f, d, n) in enumerate(zip(forms, dims, lens)):
        b += sel_code(pos, f, d, n)
    if src_kind == "scalar":
        b.append(sym_stmt(t, "s"))
        b.append("let source = Value::%s(Ref::new(s.clone()));" % TY_VARIANT[t])
    else:
        # vector source with as many elements as positions are addressed
        b.append(sym_array(t, "svec", MAXSEL))
        b.append("kani::assume(n0 >= 1 && n0 <= %d);" % MAXSEL)
        b.append("let source = Value::Matrix%s(Matrix::DVector(Ref::new(DVector::from_iterator(n0, svec.iter().cloned().take(n0)))));" % TY_VARIANT[t])
        if forms[0] == "V":
            # distinct linear indices (the property's precondition for vector sources)
            n = lens[0]
            b.append("kani::assume(%s);" % " && ".join("i0[%d] != i0[%d]" % (x, y) for x in range(n) for y in range(x + 1, n)) if n > 1 else "")
    oks = " && ".join("ok%d" % p for p in range(len(forms)))
    ivs = ", ".join("iv%d" % p for p in range(len(forms)))
    name = "c04_%s_%s%dx%d_%s_%s" % (t.lower(), sform.lower(), R, C, "_".join("%s%s" % (f.lower(), n if f in "VB" else "") for f, n in zip(forms, lens)), src_kind[0])
    # expected post-state, computed in the harness
    exp = ["let mut want: [%s; %d] = old.clone();" % (t, N)]
    if len(forms) == 1:
        for k in range(MAXSEL):
            val = "s.clone()" if src_kind == "scalar" else "svec[%d].clone()" % k
            exp.append("if %d < n0 && sel0[%d] < %d { want[sel0[%d]] = %s; }" % (k, k, N, k, val))
    else:
        for c_ in range(MAXSEL):
            for r_ in range(MAXSEL):
                exp.append("if %d < n0 && %d < n1 { let p = sel0[%d] + sel1[%d] * %d; if p < %d { want[p] = s.clone(); } }" % (r_, c_, r_, c_, R, N))
    same = " && ".join(eq_expr(t, "cur[%d]" % q, "want[%d]" % q) for q in range(N))
    unchanged = " && ".join(eq_expr(t, "cur[%d]" % q, "old[%d]" % q) for q in range(N))
    if domain == "accept":
        b.append("kani::assume(%s);" % oks)
        b += exp
        b.append("kani::cover!(true, \"VP:reached-call\");")
        b.append("let ixarr = [%s];" % ivs)
        b.append("match %s {" % call(fxn, t, sform, family(forms)))
        b.append("  Err(e) => { forget(e); assert!(false, \"VP:rejected-valid-assignment\"); }")
        b.append("  Ok(f) => {")
        b.append("    f.solve();")
        b.append("    { let cur = sc.borrow(); assert!(cur.nrows() == %d && cur.ncols() == %d, \"VP:shape-changed\"); assert!(%s, \"VP:wrong-post-state\"); }" % (R, C, same))
        b.append("    f.solve();")
        b.append("    { let cur = sc.borrow(); assert!(%s, \"VP:second-solve-differs\"); }" % same)
        b.append("    kani::cover!(true, \"VP:reached\");")
        b.append("    forget(f);")
        b.append("  }")
        b.append("}")
    else:
        b.append("kani::assume(!(%s));" % oks)
        b.append("kani::cover!(true, \"VP:reached-call\");")
        b.append("let ixarr = [%s];" % ivs)
        b.append("match %s {" % call(fxn, t, sform, family(forms)))
        b.append("  Err(e) => { kani::cover!(true, \"VP:rejected-err\"); forget(e); { let cur = sc.borrow(); assert!(%s, \"VP:sink-changed-by-rejected-assignment\"); } }" % unchanged)
        b.append("  Ok(f) => {")
        b.append("    f.solve();")
        b.append("    assert!(false, \"VP:assignment-through-index-addressing-no-element-accepted\");")
        b.append("    forget(f);")
        b.append("  }")
        b.append("}")
    b.append("forget(ixarr); forget(sc);")
    what = "x[%s] = %s" % (",".join({"S": "i", "V": "[i..]", "B": "mask", "A": ":"}[f] + (str(n) if f in "VB" else "") for f, n in zip(forms, lens)),
                          "scalar" if src_kind == "scalar" else "vector")
    h = H(name + "_" + domain, "    " + "\n    ".join(x for x in b if x), WHERE, domain=domain,
          key="%s/%s/%s/%s/%s" % (fxn, sform, "".join("%s%s" % (f, n if f in "VB" else "") for f, n in zip(forms, lens)), src_kind, domain),
          desc=("%s on a %dx%d %s %s from an arbitrary pre-state: " % (what, R, C, t, sform)) + (
              "accepted; addressed elements hold the source, every other element, the shape and the kind are unchanged; a second solve changes nothing"
              if domain == "accept" else "a target that addresses no element: error (sink unchanged) or panic, never a completed assignment"),
          functions=["%s (src/interpreter/src/stdlib/assign/matrix.rs + impl_assign_*/impl_set_* arm macros of src/core/src/stdlib.rs)" % fxn,
                     "Assign*/Set* struct solve via dyn MechFunction"],
          bounds="sink %dx%d, all element values; index values all usize; index vectors / masks of length %s"
                 % (R, C, ",".join(str(n) for f, n in zip(forms, lens) if f in "VB") or "-"),
          unwind=max([1, MAXSEL if src_kind == "vector" else 1] + [n for f_, n in zip(forms, lens) if f_ in "VB"] + [d for f_, d in zip(forms, dims) if f_ in "AB"]) + 2,
          tier=tier, group=fxn, solver="kissat")
    h.slice = slice_for(t)
    h.stub_loc = True
    if fxn in MACRO_GENERATED:
        h.tier = "thorough"
    if src_kind == "vector" and "B" in forms:
        h.tier = "off"
        h.off_reason = "vector source through a mask: no verdict in 900 s (the addressed count is the symbolic number of true bits)"
    h.heavy = True
    h.stub_kind = True
    return h


# ------------------------------------------------------------------------------------------------ op-assignment (+= -= *= /=)
OPA = {"Add": ("+", "checked_add"), "Sub": ("-", "checked_sub"), "Mul": ("*", "checked_mul"), "Div": ("/", "checked_div")}


def opa_where(op):
    return ("math", "src/op_assign/%s_assign.rs" % op.lower())


def opa_slice(op, t):
    from . import c01
    return ",".join(dict.fromkeys(c01.SLICE_BASE + [c01.KIND_FEATURE.get(t, t), "%s_assign" % op.lower()]))


def opa_value_fxn(op):
    """name of the private whole-variable dispatch function `fn <name>(sink: Value, source: Value)` of the op-assign file (read from the source)"""
    src = read_repo("machines/math/src/op_assign/%s_assign.rs" % op.lower())
    m = re.search(r"^(?:pub )?fn (\w+)\(sink: Value, source: Value\) -> MResult<Box<dyn MechFunction>>", src, re.M)
    if not m:
        raise SystemExit("INCONCLUSIVE: whole-variable dispatch function not found in op_assign/%s_assign.rs" % op.lower())
    return m.group(1)


def opa_sym(op, t, name, n, divisor=False):
    """symbolic operands of the op-assignment harnesses.  Floats are restricted to finite values of magnitude <= 1e6 (and divisors to
    magnitude >= 1e-6): Kani's NaN/overflow checks on float arithmetic are not what these harnesses are about (element arithmetic is
    C01); every finite operand pair then has a finite, non-NaN result."""
    st = sym_array(t, name, n)
    if t in FLOATS:
        lo = " && %s[%%d].abs() >= 1.0e-6" % name if divisor else ""
        st += " kani::assume(%s);" % " && ".join(("%s[%d].is_finite() && %s[%d].abs() <= 1.0e6" % (name, i, name, i)) + (lo % i if lo else "") for i in range(n))
    return st


def opa_pre(op, t, a, b_):
    """precondition under which `a op b` is the exact result in kind t (rust bool expr), and the expected value"""
    sym, chk = OPA[op]
    if t in INTS:
        return "%s.%s(%s).is_some()" % (a, chk, b_), "(%s %s %s)" % (a, sym, b_)
    return "true", "(%s %s %s)" % (a, sym, b_)


def gen_opa_value(op, t, sform, shape, srcform, tier):
    """L2: <op>_assign_math_fxn(sink, source) - `x op= s` / `x op= y` on a whole variable"""
    R, C = shape
    N = R * C
    fxn = opa_value_fxn(op)
    b = [opa_sym(op, t, "old", N)]
    if sform == "S":
        b.append("let sc = Ref::new(old[0]);")
        b.append("let sink = Value::%s(sc.clone());" % TY_VARIANT[t])
    else:
        b.append("let sc = Ref::new(%s);" % mk_form(sform, t, "old", shape))
        b.append("let sink = %s;" % value_of(sform, t, "sc.clone()"))
    M = 1 if srcform == "S" else N
    b.append(opa_sym(op, t, "src", M, divisor=(op == "Div")))
    if srcform == "S":
        b.append("let rc = Ref::new(src[0]);")
        b.append("let source = Value::%s(rc.clone());" % TY_VARIANT[t])
    else:
        b.append("let rc = Ref::new(%s);" % mk_form(srcform, t, "src", shape))
        b.append("let source = %s;" % value_of(srcform, t, "rc.clone()"))
    pres, wants = [], []
    for k in range(N):
        pr, w = opa_pre(op, t, "old[%d]" % k, "src[%d]" % (0 if srcform == "S" else k))
        pres.append(pr)
        wants.append(w)
    pres = [x for x in pres if x != "true"]
    if pres:
        b.append("kani::assume(%s);" % " && ".join(pres))
    b.append("let want: [%s; %d] = [%s];" % (t, N, ", ".join(wants)))
    b.append("kani::cover!(true, \"VP:reached-call\");")
    b.append("match %s(sink, source) {" % fxn)
    b.append("  Err(e) => { forget(e); assert!(false, \"VP:rejected-valid-op-assignment\"); }")
    b.append("  Ok(f) => {")
    b.append("    f.solve();")
    if sform == "S":
        b.append("    { let cur = sc.borrow(); assert!(%s, \"VP:wrong-post-state\"); }" % eq_expr(t, "(*cur)", "want[0]"))
    else:
        b.append("    { let cur = sc.borrow(); assert!(cur.nrows() == %d && cur.ncols() == %d, \"VP:shape-changed\"); assert!(%s, \"VP:wrong-post-state\"); }"
                 % (R, C, " && ".join(eq_expr(t, "cur[%d]" % k, "want[%d]" % k) for k in range(N))))
    if srcform == "S":
        b.append("    { let r = rc.borrow(); assert!(%s, \"VP:source-modified\"); }" % eq_expr(t, "(*r)", "src[0]"))
    else:
        b.append("    { let r = rc.borrow(); assert!(%s, \"VP:source-modified\"); }" % " && ".join(eq_expr(t, "r[%d]" % k, "src[%d]" % k) for k in range(N)))
    b.append("    kani::cover!(true, \"VP:reached\");")
    b.append("    forget(f);")
    b.append("  }")
    b.append("}")
    b.append("forget(sc); forget(rc);")
    name = "c04_opa_%s_%s_%s%dx%d_%s" % (op.lower(), t.lower(), sform.lower(), R, C, srcform.lower())
    h = H(name, "    " + "\n    ".join(b), opa_where(op), domain="accept", key="%s/%s/%s/%s" % (fxn, t, sform, srcform),
          desc="x %s= y on a whole variable: sink %s %dx%d, source %s, kind %s: every element becomes old %s source (exact when representable), "
               "shape and source unchanged" % (OPA[op][0], sform, R, C, srcform, t, OPA[op][0]),
          functions=["%s (machines/math/src/op_assign/%s_assign.rs: impl_op_assign_value_match_arms! dispatch)" % (fxn, op.lower()),
                     "%sAssignSS / %sAssignVS / %sAssignVV ::solve via dyn MechFunction" % (op, op, op)],
          bounds="sink %dx%d, all element values (integers: exact result representable)" % (R, C), unwind=N + 2, tier=tier, group="opa-value", solver="kissat")
    h.slice = opa_slice(op, t)
    h.heavy = True
    return h


def gen_opa_index(op, t, sform, shape, mode, tier, agree=False, K=2):
    """L1: the op-assign range structs, built as the set-range arms build them.
    mode: RS  x[[i..]] op= s      (index vector, scalar source)          <Op>Assign1DRS
          RB  x[mask]   op= s      (logical mask, scalar source)          <Op>Assign1DRB
          RV  x[[i..]] op= v      (index vector, vector source)          <Op>Assign1DRV
          RVB x[mask]   op= v      (logical mask, vector source)          <Op>Assign1DRVB
          AS  x[[r..],:] op= s    (row index vector, all columns)        <Op>Assign2DRAS
          ASB x[mask,:] op= s                                             <Op>Assign2DRASB"""
    R, C = shape
    N = R * C
    sym, chk = OPA[op]
    struct = {"RS": "1DRS", "RB": "1DRB", "RV": "1DRV", "RVB": "1DRVB", "AS": "2DRAS", "ASB": "2DRASB"}[mode]
    mat = {"RD": "RowDVector", "VD": "DVector", "MD": "DMatrix"}[sform]
    b = [opa_sym(op, t, "old", N), "let sc = Ref::new(%s);" % mk_form(sform, t, "old", shape)]
    two_d = mode in ("AS", "ASB")
    dim = R if two_d else N
    mask = mode in ("RB", "RVB", "ASB")
    vec_src = mode in ("RV", "RVB")
    # K = index vector length (3: a vector with an interior, see gen_set_l1)
    if mask:
        b.append("let ix: [bool; %d] = kani::any();" % dim)
        if agree:
            # true bits form a prefix: position i and `i-th addressed element` coincide (see the known finding C04-mask-vector-source-by-position)
            b.append("kani::assume(%s);" % " && ".join("(ix[%d] || !ix[%d])" % (i, i + 1) for i in range(dim - 1)))
        b.append("let ixc = Ref::new(DVector::<bool>::from_vec(ix.to_vec()));")
    else:
        b.append("let ix: [usize; %d] = kani::any();" % K)
        b.append("kani::assume(%s);" % " && ".join(["ix[%d] >= 1 && ix[%d] <= %d" % (k, k, dim) for k in range(K)] + ["ix[%d] != ix[%d]" % (a_, b_) for a_ in range(K) for b_ in range(a_ + 1, K)]))
        b.append("let ixc = Ref::new(DVector::<usize>::from_vec(ix.to_vec()));")
    if vec_src:
        nsrc = dim if mask else K
        b.append(opa_sym(op, t, "src", nsrc, divisor=(op == "Div")))
        b.append("let rc = Ref::new(DVector::<%s>::from_vec(src.to_vec()));" % t)
    else:
        nsrc = 1
        b.append(opa_sym(op, t, "src", 1, divisor=(op == "Div")))
        b.append("let rc = Ref::new(src[0]);")
    if t in INTS:
        # every (sink element, source element) pair has an exact result in the kind: whichever pairing a kernel uses, it cannot
        # overflow or divide by zero, so a wrong pairing shows up as a wrong post-state (VP:wrong-post-state), not as a panic
        b.append("kani::assume(%s);" % " && ".join("old[%d].%s(src[%d]).is_some()" % (i, chk, j) for i in range(N) for j in range(nsrc)))
    # expected post-state
    b.append("let mut want: [%s; %d] = old;" % (t, N))
    b.append("let mut pre = true;")
    def upd(pos_expr, src_expr):
        if t in INTS:
            return "{ let p = %s; match want[p].%s(%s) { Some(w) => { want[p] = w; } None => { pre = false; } } }" % (pos_expr, chk, src_expr)
        return "{ let p = %s; want[p] = want[p] %s %s; }" % (pos_expr, sym, src_expr)
    if not two_d:
        if mask:
            if vec_src:
                # the i-th addressed element is combined with the i-th source element
                b.append("let mut nth: usize = 0;")
                for i in range(dim):
                    b.append("if ix[%d] { %s nth += 1; }" % (i, upd(str(i), "src[nth]")))
            else:
                for i in range(dim):
                    b.append("if ix[%d] %s" % (i, upd(str(i), "src[0]")))
        else:
            for k in range(K):
                b.append(upd("ix[%d] - 1" % k, "src[%d]" % (k if vec_src else 0)))
    else:
        for c_ in range(C):
            if mask:
                for i in range(R):
                    b.append("if ix[%d] %s" % (i, upd(str(i + c_ * R), "src[0]")))
            else:
                for k in range(K):
                    b.append(upd("(ix[%d] - 1) + %d" % (k, c_ * R), "src[0]"))
    b.append("kani::assume(pre);")
    if vec_src:
        b.append("let f = %sAssign%s::<%s, %s<%s>, DVector<%s>, DVector<%s>> { source: rc.clone(), ixes: ixc.clone(), sink: sc.clone(), _marker: ::std::marker::PhantomData };"
                 % (op, struct, t, mat, t, t, "bool" if mask else "usize"))
    else:
        b.append("let f = %sAssign%s::<%s, %s<%s>, DVector<%s>> { source: rc.clone(), ixes: ixc.clone(), sink: sc.clone(), _marker: ::std::marker::PhantomData };"
                 % (op, struct, t, mat, t, "bool" if mask else "usize"))
    b.append("f.solve();")
    b.append("{ let cur = sc.borrow(); assert!(cur.nrows() == %d && cur.ncols() == %d, \"VP:shape-changed\"); assert!(%s, \"VP:wrong-post-state\"); }"
             % (R, C, " && ".join(eq_expr(t, "cur[%d]" % k, "want[%d]" % k) for k in range(N))))
    b.append("kani::cover!(true, \"VP:reached\");")
    if mask and agree:
        b.append("kani::cover!(ix[0] && !ix[%d], \"VP:reached-partial-mask\");" % (dim - 1))
    elif mask:
        b.append("kani::cover!(%s, \"VP:reached-partial-mask\");" % " && ".join(("ix[%d]" if i % 2 == 0 else "!ix[%d]") % i for i in range(dim)))
    b.append("forget(f); forget(sc); forget(rc); forget(ixc);")
    name = "c04_opa_%s_%s_%s%dx%d_%s%s%s" % (op.lower(), t.lower(), sform.lower(), R, C, mode.lower(), "_agree" if agree else "", "" if K == 2 else "_k%d" % K)
    h = H(name, "    " + "\n    ".join(b), opa_where(op), domain="accept", key="L1/%sAssign%s/%s/%s%s" % (op, struct, t, sform, "/agree" if agree else ""),
          desc="%sAssign%s<%s> on a %dx%d %s from an arbitrary pre-state (%s): addressed elements become old %s source, every other element and the "
               "shape unchanged" % (op, struct, t, R, C, sform, {"RS": "two distinct linear indices, scalar source", "RB": "symbolic mask, scalar source",
               "RV": "two distinct linear indices, vector source", "RVB": "symbolic mask, vector source", "AS": "two distinct row indices, all columns, scalar source",
               "ASB": "symbolic row mask, all columns, scalar source"}[mode], sym),
          functions=["%sAssign%s::solve (machines/math/src/op_assign/%s_assign.rs + mod.rs: impl_op_assign_range_fxn_{s,v}!, %s_assign_* kernel macro)" % (op, struct, op.lower(), op.lower())],
          bounds="sink %dx%d, all element values (integers: exact results representable); index vectors of 2 distinct in-range indices; masks of the dimension's length" % (R, C),
          unwind=max(N, K) + 2, tier=tier, group="opa-index")
    from . import c01
    h.slice = c01.l1_slice("math")
    return h


# ------------------------------------------------------------------------------------------------ L1: the Assign*/Set* structs
SET_L1 = {
    # mode: (struct, row selector, column selector)   selectors: lin-ix / lin-mask (1-D), ix / mask / one / all (2-D)
    "1DRS": ("Assign1DRS", "lin-ix", None), "1DRB": ("Assign1DRB", "lin-mask", None),
    "1DRV": ("Assign1DRV", "lin-ix", None), "1DRVB": ("Assign1DRVB", "lin-mask", None),
    "2DARS": ("Set2DARS", "all", "ix"), "2DARB": ("Set2DARB", "all", "mask"),
    "2DRAS": ("Set2DRAS", "ix", "all"), "2DRAB": ("Set2DRAB", "mask", "all"),
    "2DRSS": ("Assign2DRSS", "ix", "one"), "2DRSB": ("Assign2DRSB", "mask", "one"),
    "2DSRS": ("Assign2DSRS", "one", "ix"), "2DSRB": ("Assign2DSRB", "one", "mask"),
    "2DRRS": ("Assign2DRRS", "ix", "ix"), "2DRRBB": ("Assign2DRRBB", "mask", "mask"),
    "2DRRBU": ("Assign2DRRBU", "mask", "ix"), "2DRRUB": ("Assign2DRRUB", "ix", "mask"),
}


def gen_set_l1(t, sform, shape, mode, tier, agree=False, K=2):
    """agree=True: the inputs are restricted to those on which the recorded known finding of this kernel cannot show (1DRVB: the true
    bits form a prefix, so `i-th addressed` and `position i` coincide; 2DRRUB: the row index vector is [1, 2]), so that every OTHER
    defect of the kernel is still a violation.
    the plain-assignment struct `mode` built directly (as its dispatch arm builds it) with a symbolic sink, a symbolic source and
    symbolic index vectors / masks; solve(); post-state against the reference model"""
    R, C = shape
    N = R * C
    struct, rsel, csel = SET_L1[mode]
    mat = {"RD": "RowDVector", "VD": "DVector", "MD": "DMatrix"}[sform]
    vec_src = mode in ("1DRV", "1DRVB")
    # K = index vector length.  K = 3 exists because two entries have no interior: a kernel that infers "consecutive run" from the end
    # points of the vector (seeded change C04-3) is only wrong for three or more entries
    b = [sym_array(t, "old", N), "let sc = Ref::new(%s);" % mk_form(sform, t, "old", shape)]
    pre = []

    def selector(kind, nm, dim):
        """-> (decls, [(pos_expr, guard_expr)], IxVec elem type or None, ref expr)"""
        if kind in ("ix", "lin-ix"):
            d = ["let %s: [usize; %d] = kani::any();" % (nm, K), "let %sc = Ref::new(DVector::<usize>::from_vec(%s.to_vec()));" % (nm, nm)]
            for k in range(K):
                pre.append("%s[%d] >= 1 && %s[%d] <= %d" % (nm, k, nm, k, dim))
            return d, [("(%s[%d] - 1)" % (nm, k), "true") for k in range(K)], "usize", "%sc.clone()" % nm
        if kind in ("mask", "lin-mask"):
            d = ["let %s: [bool; %d] = kani::any();" % (nm, dim), "let %sc = Ref::new(DVector::<bool>::from_vec(%s.to_vec()));" % (nm, nm)]
            return d, [("%d" % i, "%s[%d]" % (nm, i)) for i in range(dim)], "bool", "%sc.clone()" % nm
        if kind == "one":
            d = ["let %s: usize = kani::any();" % nm, "let %sc = Ref::new(%s);" % (nm, nm)]
            pre.append("%s >= 1 && %s <= %d" % (nm, nm, dim))
            return d, [("(%s - 1)" % nm, "true")], None, "%sc.clone()" % nm
        if kind == "all":
            return [], [("%d" % i, "true") for i in range(dim)], None, None
        raise ValueError(kind)

    if csel is None:
        d0, rows, ty0, ref0 = selector(rsel, "i0", N)
        b += d0
        cols, ty1, ref1 = None, None, None
    else:
        d0, rows, ty0, ref0 = selector(rsel, "i0", R)
        d1, cols, ty1, ref1 = selector(csel, "i1", C)
        b += d0 + d1
    if vec_src:
        if rsel == "lin-ix":
            pre.extend("i0[%d] != i0[%d]" % (a_, b_) for a_ in range(K) for b_ in range(a_ + 1, K))
            nsrc = K
        else:
            nsrc = N       # as long as the mask: a source with one element per true bit is a prefix of it
        b.append(sym_array(t, "src", nsrc))
        b.append("let rc = Ref::new(DVector::<%s>::from_vec(src.to_vec()));" % t)
    else:
        b.append(sym_stmt(t, "s"))
        b.append("let rc = Ref::new(s.clone());")
    if agree and mode == "1DRVB":
        pre.append(" && ".join("(i0[%d] || !i0[%d])" % (i, i + 1) for i in range(N - 1)))
    if agree and mode == "2DRRUB":
        pre.append("i0[0] == 1 && i0[1] == 2")
    if pre:
        b.append("kani::assume(%s);" % " && ".join(pre))
    b.append("let mut want: [%s; %d] = old.clone();" % (t, N))
    if cols is None:
        if vec_src and rsel == "lin-mask":
            b.append("let mut nth: usize = 0;")
            for pos, g in rows:
                b.append("if %s { want[%s] = src[nth].clone(); nth += 1; }" % (g, pos))
        else:
            for k, (pos, g) in enumerate(rows):
                val = ("src[%d].clone()" % k) if vec_src else "s.clone()"
                b.append("if %s { want[%s] = %s; }" % (g, pos, val))
    else:
        for cpos, cg in cols:
            for rpos, rg in rows:
                b.append("if %s && %s { want[%s + %s * %d] = s.clone(); }" % (rg, cg, rpos, cpos, R))
    # the struct
    tys = [t, "%s<%s>" % (mat, t)]
    if vec_src:
        tys.append("DVector<%s>" % t)
    for ty in (ty0, ty1):
        if ty:
            tys.append("DVector<%s>" % ty)
    if csel is None or rsel == "all" or csel == "all":
        ix = ref0 if ref0 else ref1
    else:
        ix = "(%s, %s)" % (ref0, ref1)
    b.append("let f = %s::<%s> { source: rc.clone(), ixes: %s, sink: sc.clone(), _marker: ::std::marker::PhantomData };" % (struct, ", ".join(tys), ix))
    b.append("f.solve();")
    same = " && ".join(eq_expr(t, "cur[%d]" % q, "want[%d]" % q) for q in range(N))
    b.append("{ let cur = sc.borrow(); assert!(cur.nrows() == %d && cur.ncols() == %d, \"VP:shape-changed\"); assert!(%s, \"VP:wrong-post-state\"); }" % (R, C, same))
    b.append("f.solve();")
    b.append("{ let cur = sc.borrow(); assert!(%s, \"VP:second-solve-differs\"); }" % same)
    b.append("kani::cover!(true, \"VP:reached\");")
    b.append("forget(f); forget(sc); forget(rc);")
    name = "c04_l1_%s_%s%dx%d_%s%s%s" % (t.lower(), sform.lower(), R, C, mode.lower(), "_agree" if agree else "", "" if K == 2 else "_k%d" % K)
    h = H(name, "    " + "\n    ".join(b), WHERE, domain="accept", key="L1/%s/%s/%s%s" % (struct, t, sform, "/agree" if agree else ""),
          desc="%s<%s> on a %dx%d %s from an arbitrary pre-state (rows: %s, columns: %s, %s source): addressed elements hold the source%s, every other "
               "element and the shape unchanged, a second solve changes nothing" % (struct, t, R, C, sform, rsel, csel or "-", "vector" if vec_src else "scalar",
               " (i-th addressed element = i-th source element)" if vec_src else ""),
          functions=["%s::solve (src/interpreter/src/stdlib/assign/matrix.rs: struct macro + kernel macro)" % struct],
          bounds="sink %dx%d, all element values; index vectors of %d in-range indices (all values), masks of the dimension's length (all bit patterns)" % (R, C, K),
          unwind=max(N, K) + 2, tier=tier, group="set-l1")
    h.slice = slice_for(t)
    return h


def plan(tier, seed):
    hs = []
    t = "f64"
    for sform, shape in (("RD", (1, 3)), ("VD", (3, 1)), ("MD", (2, 2))):
        N = shape[0] * shape[1]
        q = "quick" if sform == ["RD", "VD", "MD"][seed % 3] else "thorough"
        hs.append(gen(t, sform, shape, ("S",), (0,), "scalar", "accept", "quick"))
        hs.append(gen(t, sform, shape, ("S",), (0,), "scalar", "reject", q))
        hs.append(gen(t, sform, shape, ("V",), (2,), "scalar", "accept", q))
        hs.append(gen(t, sform, shape, ("V",), (2,), "scalar", "reject", q))
        hs.append(gen(t, sform, shape, ("V",), (2,), "vector", "accept", q))
        hs.append(gen(t, sform, shape, ("B",), (N,), "scalar", "accept", q))
        hs.append(gen(t, sform, shape, ("B",), (N,), "vector", "accept", q))
        hs.append(gen(t, sform, shape, ("B",), (N + 1,), "scalar", "reject", q))
        hs.append(gen(t, sform, shape, ("B",), (N - 1,), "scalar", "reject", q))
        if N <= MAXSEL:
            hs.append(gen(t, sform, shape, ("A",), (0,), "scalar", "accept", q))
    shape = (2, 3)
    two = [(("S", "S"), (0, 0)), (("A", "S"), (0, 0)), (("S", "A"), (0, 0)), (("V", "V"), (2, 2)), (("V", "B"), (2, 3)), (("B", "V"), (2, 2)),
           (("B", "B"), (2, 3)), (("A", "V"), (0, 2)), (("A", "B"), (0, 3)), (("V", "A"), (2, 0)), (("B", "A"), (2, 0)), (("V", "S"), (2, 0)),
           (("B", "S"), (2, 0)), (("S", "V"), (0, 2)), (("S", "B"), (0, 3))]
    for k, (forms, lens) in enumerate(two):
        q = "quick" if (forms == ("S", "S") or k % 5 == (seed + 2) % 5) else "thorough"
        hs.append(gen(t, "MD", shape, forms, lens, "scalar", "accept", q))
        hs.append(gen(t, "MD", shape, forms, lens, "scalar", "reject", q))
        if "B" in forms:
            l2 = tuple((n + 1) if f == "B" else n for f, n in zip(forms, lens))
            hs.append(gen(t, "MD", shape, forms, l2, "scalar", "reject", q))
    for sform, shape in (("RD", (1, 3)), ("MD", (2, 2))):
        hs.append(gen("u8", sform, shape, ("S",), (0,), "scalar", "accept", "thorough"))
        hs.append(gen("i64", sform, shape, ("V",), (2,), "scalar", "accept", "thorough"))
    # L1: every plain-assignment struct family, scalar sources for all index forms, vector sources for the 1-D forms
    for k, mode in enumerate(SET_L1):
        if mode.startswith("1D"):
            for sf, sh in (("RD", (1, 3)), ("VD", (3, 1)), ("MD", (2, 2))):
                hs.append(gen_set_l1("f64", sf, sh, mode, "quick" if sf == ["RD", "VD", "MD"][(k + seed) % 3] else "thorough"))
        else:
            hs.append(gen_set_l1("f64", "MD", (2, 3), mode, "quick"))
            hs.append(gen_set_l1("u8", "MD", (3, 2), mode, "thorough"))
    # index vectors of three entries (an interior), sinks of four elements / 3x3
    hs.append(gen_set_l1("u8", "VD", (4, 1), "1DRS", "quick", K=3))
    hs.append(gen_set_l1("u8", "RD", (1, 4), "1DRV", "quick", K=3))
    hs.append(gen_set_l1("u8", "MD", (2, 2), "1DRS", "thorough", K=3))
    for mode3 in [m_ for m_, (st_, r_, c_) in SET_L1.items() if c_ is not None and "ix" in (r_, c_)]:
        hs.append(gen_set_l1("u8", "MD", (3, 3), mode3, "quick" if mode3 in ("2DRAS", "2DARS", "2DRRS") else "thorough", K=3))
    hs.append(gen_set_l1("f64", "VD", (3, 1), "1DRVB", "quick", agree=True))
    hs.append(gen_set_l1("f64", "MD", (2, 3), "2DRRUB", "quick", agree=True))
    # op-assignment
    opa = []
    ops = ["Add", "Sub", "Mul", "Div"]
    for n, op in enumerate(ops):
        tt = ["i64", "u8", "i32", "i16"][(n + seed) % 4]      # no f64: `-=` on f64 needed 100-350 s per kernel harness at seed 1 (quick is stopped at 900 s)
        if op == "Div":
            tt = ["u8", "f32", "i8", "u8"][(n + seed) % 4]        # 64-bit symbolic-by-symbolic division gets no verdict
        if op == "Mul":
            tt = ["i16", "u8", "i8", "i16"][(n + seed) % 4]      # 64-bit / f64 symbolic-by-symbolic multiplication: 900 s timeouts; f32: 130-670 s (measured)
        for k, (sf, sh, srcf) in enumerate((("S", (1, 1), "S"), ("VD", (3, 1), "S"), ("MD", (2, 2), "S"), ("RD", (1, 3), "S"), ("VD", (3, 1), "VD"), ("MD", (2, 2), "MD"), ("RD", (1, 2), "RD"))):
            opa.append(gen_opa_value(op, tt, sf, sh, srcf, "quick" if k in ((n + seed) % 7, (n + seed + 3) % 7) else "thorough"))
        for k, (sf, sh, mode) in enumerate((("VD", (3, 1), "RS"), ("RD", (1, 3), "RB"), ("VD", (3, 1), "RV"), ("MD", (2, 2), "RVB"), ("MD", (2, 2), "AS"), ("MD", (2, 2), "ASB"),
                                            ("MD", (2, 2), "RS"), ("VD", (3, 1), "RB"), ("RD", (1, 3), "RV"), ("VD", (3, 1), "RVB"))):
            opa.append(gen_opa_index(op, tt, sf, sh, mode, "quick" if k < 6 else "thorough"))     # ~10 s each (f32 multiplication: ~2 min)
        opa.append(gen_opa_index(op, tt, "VD", (3, 1), "RVB", "quick", agree=True))
        opa.append(gen_opa_index(op, tt, "VD", (4, 1), "RS", "quick" if op in ("Add", "Div") else "thorough", K=3))
        opa.append(gen_opa_index(op, tt, "MD", (3, 3), "AS", "thorough", K=3))
    hs += opa
    src = read_repo("src/interpreter/src/stdlib/assign/matrix.rs")
    prelude, extracted = "", {}
    for fx in sorted(set(list(DISPATCH_1D.values()) + list(DISPATCH_2D.values())) - MACRO_GENERATED):
        t_, h_ = extract_dispatch_fn(src, fx, "src/interpreter/src/stdlib/assign/matrix.rs")
        for k_ in KINDS_USED:
            c_, removed = cut_kind_chain(t_.replace("pub fn vp_%s(" % fx, "pub fn vp_%s_%s(" % (fx, k_.lower())), k_)
            if removed == 0:
                raise SystemExit("INCONCLUSIVE: %s no longer has the per-kind or_else chain the harness generator expects" % fx)
            for sf_ in ("RD", "VD", "MD"):
                for fam_ in ("", "b", "bu", "ub"):
                    d_ = direct_arms(c_, k_, sf_, sf_.lower() + fam_, want=fam_)
                    if d_ is not None:
                        prelude += d_
        extracted[fx] = h_
    return {
        "harnesses": hs,
        "incrate_prelude": {WHERE: prelude},
        "extracted": extracted,
        "explanation": "Kani/CBMC over the real assign dispatch functions and the Assign*/Set* kernels they build (harness copy of "
                       "mech-interpreter, per-kind slice, kissat): one assignment step from a fully symbolic sink pre-state, symbolic source and "
                       "symbolic indices; post-state compared with a reference model element by element",
        "bounds": "sinks 1x3, 3x1, 2x2, 2x3; index vectors of length 2; masks of length dim-1/dim/dim+1; at most %d addressed positions per "
                  "dimension; scalar sources for every form, vector sources for 1-D vector/mask targets; element kind f64 (u8, i64 thorough)" % MAXSEL,
        "outside": ["the or_else plumbing of impl_assign_fxn! that tries the storage forms in turn: the extracted bodies invoke the arm macro "
                    "(impl_assign_*_arms! / impl_set_*_arms!) for the sink's storage form directly (common.direct_arms), because every failed attempt "
                    "builds a MechError whose drop (Arc<dyn Any>) symbolic execution cannot get through",
                    "the attempts of the dispatch functions for the 15 element kinds other than the sink's: the extracted bodies keep only the "
                    "`impl_assign_fxn!(.., <kind>, ..)` links of the or_else chain for the kind under test (common.cut_kind_chain: arms of another "
                    "kind cannot match, each failed attempt only builds and drops an error value)",
                    "op-assignment (+= -= *= /=): the whole-variable dispatch functions (<op>_assign_*_fxn) and the indexed kernels "
                    "<Op>Assign{1DRS,1DRB,1DRV,1DRVB,2DRAS,2DRASB} are harnessed; the indexed op-assign DISPATCH (op_assign_range_fxn! or_else chains) is outside; "
                    "operand values: integers such that every (sink element, source element) pair has an exact result, floats finite with magnitude "
                    "<= 1e6 (divisors >= 1e-6); no 64-bit / f64 multiplication or 64-bit division (no verdict in 900 s)", "failure atomicity on panicking paths (Kani models panic as abort: the sink "
                    "after a panic is not observable)", "source kind conversion (`a kind the matrix cannot hold`) - decided by the statement-level "
                    "code in statements.rs", "histories of several assignments (covered by induction on the arbitrary pre-state)",
                    "subscript_ref()/variable_assign() statement glue"],
        "caps": {"quick_timeout": 900, "thorough_timeout": 2400, "heavy_jobs": 6, "heavy_rss_gb": 9},
    }
