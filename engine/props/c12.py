"""C12 - kind conversion.

L1: the two public conversion structs ConvertScalarToScalar<F,T> (LosslessInto) and ConvertScalarToScalarBasic<F,T>
(LossyFrom) for every ordered pair of the 12 primitive numeric kinds, with the source value symbolic; matrices through
ConvertMatToMat2.  Oracle (independent of `as`): integer -> integer by TryFrom; integer -> float by exactness of the
integral float; float -> integer by trunc / clamp / NaN->0; float -> float by exact round trip.
L2: the dispatch function impl_conversion_fxn for a sample of pairs (which struct family is picked, `no conversion => error`).
"""
from ..model import H
from .common import *

WHERE = ("interpreter", "src/stdlib/convert/scalar.rs")
WHERE_MM = ("interpreter", "src/stdlib/convert/mat_to_mat.rs")
NUM = ["u8", "u16", "u32", "u64", "u128", "i8", "i16", "i32", "i64", "i128", "f32", "f64"]
from .c03 import SLICE_BASE as _SB
SLICE = ",".join(dict.fromkeys(_SB + NUM))
MANT = {"f32": 24, "f64": 53}


def is_int(t):
    return t in INTS


def oracle(f, t):
    """rust statements asserting the property for `v: f` converted to `out: t`"""
    o = []
    if is_int(f) and is_int(t):
        o.append("match <%s as ::std::convert::TryFrom<%s>>::try_from(v) { Ok(w) => { kani::cover!(true, \"VP:reached-representable\"); "
                 "assert!(out == w, \"VP:representable-value-changed\"); } Err(_) => {} }" % (t, f))
    elif is_int(f) and not is_int(t):
        # v is exactly representable iff it has at most MANT significant bits; then the float must be integral and equal
        m = MANT[t]
        mag = "(v as i128).unsigned_abs()" if f != "u128" else "(v as u128)"
        o.append("let mag: u128 = %s;" % mag)
        o.append("let sig = if mag == 0 { 0 } else { 128 - mag.leading_zeros() - mag.trailing_zeros() };")
        if t == "f32":
            o.append("let inrange = mag < (1u128 << 127);")   # u128::MAX as f32 rounds to 2^128 = inf? (f32 max ~3.4e38 = 2^128) keep below
        else:
            o.append("let inrange = true;")
        o.append("if sig <= %d && inrange { kani::cover!(true, \"VP:reached-representable\"); assert!(out.is_finite() && out.fract() == 0.0, \"VP:representable-value-changed\"); "
                 "%s }" % (m, ("assert!((out as i128) == (v as i128), \"VP:representable-value-changed\");" if f != "u128" else
                              "assert!((out as u128) == v, \"VP:representable-value-changed\");")))
    elif not is_int(f) and is_int(t):
        # truncate toward zero, clamp to the target range, NaN -> 0
        o.append("if v.is_nan() { assert!(out == 0, \"VP:nan-not-zero\"); }")
        o.append("else if v <= (%s::MIN as %s) { assert!(out == %s::MIN, \"VP:not-clamped-low\"); }" % (t, f, t))
        o.append("else if v >= (%s::MAX as %s) { assert!(out == %s::MAX, \"VP:not-clamped-high\"); }" % (t, f, t))
        o.append("else { kani::cover!(v.fract() != 0.0, \"VP:reached-fraction\"); assert!((out as %s) == v.trunc(), \"VP:not-truncated-toward-zero\"); }" % f)
    else:
        if f == t:
            o.append("assert!(out.to_bits() == v.to_bits(), \"VP:representable-value-changed\");")
        elif f == "f32":
            o.append("if !v.is_nan() { kani::cover!(true, \"VP:reached-representable\"); assert!(out == (v as f64) && (out as f32).to_bits() == v.to_bits(), \"VP:representable-value-changed\"); } else { assert!(out.is_nan(), \"VP:nan-lost\"); }")
        else:
            o.append("if ((v as f32) as f64).to_bits() == v.to_bits() { kani::cover!(true, \"VP:reached-representable\"); assert!((out as f64).to_bits() == v.to_bits(), \"VP:representable-value-changed\"); }")
    return o


def gen_scalar(struct, f, t, tier):
    b = ["let v: %s = kani::any();" % f,
         "let a = Ref::new(v);",
         "let fx = %s::<%s, %s> { arg: a.clone(), out: Ref::new(%s) };" % (struct, f, t, default_of(t)),
         "fx.solve();",
         "let out: %s = *fx.out.borrow();" % t]
    b += oracle(f, t)
    b.append("assert!(%s, \"VP:source-modified\");" % eq_expr(f, "(*a.borrow())", "v"))
    b.append("kani::cover!(true, \"VP:reached\");")
    b.append("forget(fx); forget(a);")
    h = H("c12_l1_%s_%s_%s" % ("lossless" if struct == "ConvertScalarToScalar" else "lossy", f, t), "    " + "\n    ".join(b), WHERE,
          domain="accept", key="L1/%s<%s,%s>" % (struct, f, t),
          desc="%s<%s,%s>::solve on a symbolic %s: a representable value is unchanged%s" % (
              struct, f, t, f, "; float -> integer truncates toward zero, clamps, NaN -> 0" if (not is_int(f) and is_int(t)) else ""),
          functions=["%s<%s,%s>::solve (src/interpreter/src/stdlib/convert/scalar.rs)" % (struct, f, t),
                     ("LosslessInto" if struct == "ConvertScalarToScalar" else "LossyFrom") + " impl (src/interpreter/src/stdlib/convert/mod.rs)"],
          bounds="all bit patterns of the source kind", unwind=4, tier=tier, group="L1")
    h.slice = SLICE
    return h


def gen_widen_narrow(f, t, tier):
    """widening then narrowing back is the identity (integers into a wider integer / float kind and back)"""
    b = ["let v: %s = kani::any();" % f,
         "let a = Ref::new(v); let mid = Ref::new(%s); let back = Ref::new(%s);" % (default_of(t), default_of(f)),
         "let up = ConvertScalarToScalar::<%s, %s> { arg: a.clone(), out: mid.clone() };" % (f, t),
         "let down = ConvertScalarToScalar::<%s, %s> { arg: mid.clone(), out: back.clone() };" % (t, f),
         "up.solve(); down.solve();",
         "assert!(%s, \"VP:widen-narrow-not-identity\");" % eq_expr(f, "(*back.borrow())", "v"),
         "kani::cover!(true, \"VP:reached\");", "forget(up); forget(down); forget(a); forget(mid); forget(back);"]
    h = H("c12_l1_widen_narrow_%s_%s" % (f, t), "    " + "\n    ".join(b), WHERE, domain="accept", key="L1/widen-narrow/%s->%s" % (f, t),
          desc="%s -> %s -> %s is the identity for every %s" % (f, t, f, f), functions=["ConvertScalarToScalar::solve twice"],
          bounds="all values of %s" % f, unwind=4, tier=tier, group="L1")
    h.slice = SLICE
    return h


def gen_dispatch(f, t, tier):
    """L2: impl_conversion_fxn(Value::F(v), Value::Kind(T)) -> solve -> out == the L1 rule"""
    fv, tv = TY_VARIANT[f], TY_VARIANT[t]
    b = ["let v: %s = kani::any();" % f,
         "let a = Ref::new(v);",
         "kani::cover!(true, \"VP:reached-call\");",
         "match impl_conversion_fxn(Value::%s(a.clone()), Value::Kind(ValueKind::%s)) {" % (fv, tv),
         "  Err(e) => { forget(e); assert!(false, \"VP:conversion-rejected\"); }",
         "  Ok(fx) => {",
         "    fx.solve();",
         "    let r = fx.out();",
         "    match &r { Value::%s(o) => { let out: %s = *o.borrow();" % (tv, t)]
    b += ["      " + x for x in oracle(f, t)]
    b += ["      kani::cover!(true, \"VP:reached\"); }",
          "      _ => { assert!(false, \"VP:wrong-result-kind\"); } }",
          "    forget(r); forget(fx);", "  }", "}", "forget(a);"]
    h = H("c12_l2_%s_%s" % (f, t), "    " + "\n    ".join(b), WHERE, domain="accept", key="L2/impl_conversion_fxn/%s->%s" % (f, t),
          desc="impl_conversion_fxn(%s value, kind %s): accepted, result kind %s, value by the conversion rule" % (f, t, t),
          functions=["impl_conversion_fxn (src/interpreter/src/stdlib/convert/scalar.rs: impl_conversion_match_arms! dispatch)"],
          bounds="all bit patterns of the source kind; feature slice with the 12 numeric kinds", unwind=4, tier=tier, group="L2", solver="kissat")
    h.slice = SLICE
    h.heavy = True
    return h


def gen_dispatch_reject(tier):
    b = ["let s = Ref::new(String::new());",
         "kani::cover!(true, \"VP:reached-call\");",
         "match impl_conversion_fxn(Value::String(s.clone()), Value::Kind(ValueKind::U8)) {",
         "  Err(e) => { kani::cover!(true, \"VP:rejected-err\"); forget(e); }",
         "  Ok(fx) => { fx.solve(); let r = fx.out(); assert!(false, \"VP:string-to-number-accepted\"); forget(r); forget(fx); }",
         "}", "forget(s);"]
    h = H("c12_l2_reject_string_u8", "    " + "\n    ".join(b), WHERE, domain="reject", key="L2/impl_conversion_fxn/String->u8/reject",
          desc="string -> number has no conversion: error, never a value", functions=["impl_conversion_fxn"], bounds="empty string",
          unwind=4, tier=tier, group="L2", solver="kissat")
    h.slice = SLICE
    h.heavy = True
    return h


# ------------------------------------------------------------------------------------------------ matrices and reshape
def _elem_oracle(f, t, k):
    """the scalar rule applied to element k: `a[k]` converted must be `rd(k)`"""
    o = ["{ let v: %s = a[%d]; let out: %s = rd(%d);" % (f, k, t, k)]
    o += ["  " + x for x in oracle(f, t)]
    if f == t:
        o.append("  assert!(%s, \"VP:representable-value-changed\");" % eq_expr(t, "out", "v"))
    o.append("}")
    return o


def gen_mat(fn, f, t, sform, shape, dims, tier):
    """fn in {convert, reshape}: create_convert_mat_to_mat / create_reshape_mat_to_mat ::<f,t>(Matrix<f>, &dims) -> solve -> out"""
    from .c03 import extract
    R, C = shape
    N = R * C
    R2, C2 = dims
    real = "create_%s_mat_to_mat" % fn
    b = [sym_array(f, "a", N),
         "let sc = Ref::new(%s);" % mk_form(sform, f, "a", shape),
         "let m: Matrix<%s> = Matrix::%s(sc.clone());" % (f, SHAPE_IDENT[sform]),
         "let dims: [usize; 2] = [%d, %d];" % (R2, C2),
         "kani::cover!(true, \"VP:reached-call\");",
         "match %s::<%s, %s>(m, &dims[..]) {" % (real, f, t),
         "  Err(e) => { forget(e); assert!(false, \"VP:conversion-rejected\"); }",
         "  Ok(fx) => {",
         "    fx.solve();",
         "    let v = fx.out();",
         "    " + extract(t, ""),
         "    assert!(rows == %d && cols == %d, \"VP:wrong-shape\");" % (R2, C2),
         "    if rows * cols == %d {" % N]
    for k in range(N):
        b += ["      " + x for x in _elem_oracle(f, t, k)]
    b += ["    }",
          "    { let s = sc.borrow(); assert!(%s, \"VP:source-modified\"); }" % " && ".join(eq_expr(f, "s[%d]" % q, "a[%d]" % q) for q in range(N)),
          "    kani::cover!(true, \"VP:reached\");",
          "    forget(v); forget(fx);", "  }", "}", "forget(sc);"]
    name = "c12_mat_%s_%s_%s_%s%dx%d_to_%dx%d" % (fn, f, t, sform.lower(), R, C, R2, C2)
    h = H(name, "    " + "\n    ".join(b), WHERE_MM, domain="accept", key="mat/%s<%s,%s>/%s%dx%d->%dx%d" % (real, f, t, sform, R, C, R2, C2),
          desc="%s::<%s,%s> on a symbolic %dx%d %s with target shape %dx%d: accepted, result has the target shape, element k (column-major) "
               "is element k of the source converted by the scalar rule, source unchanged" % (real, f, t, R, C, sform, R2, C2),
          functions=["%s (src/interpreter/src/stdlib/convert/mat_to_mat.rs: storage-form table, output allocation)" % real,
                     "ConvertMatToMat2::solve/out via dyn MechFunction", "LosslessInto<%s> for %s" % (t, f)],
          bounds="source %dx%d, all element values" % (R, C), unwind=N + 2, tier=tier, group="mat", solver="kissat")
    h.slice = SLICE
    h.heavy = True
    return h


def gen_mat_dispatch(f, t, sform, shape, dims, domain, tier):
    """L2: impl_conversion_mat_to_mat_fxn(Value::Matrix<F>(..), ValueKind::Matrix(Box<T>, dims))"""
    from .c03 import extract
    R, C = shape
    N = R * C
    fv, tv = TY_VARIANT[f], TY_VARIANT[t]
    dimtxt = "vec![%s]" % ", ".join(str(d) for d in dims)
    b = [sym_array(f, "a", N),
         "let sc = Ref::new(%s);" % mk_form(sform, f, "a", shape),
         "let sv = %s;" % value_of(sform, f, "sc.clone()"),
         "let tk = ValueKind::Matrix(Box::new(ValueKind::%s), %s);" % (tv, dimtxt),
         "kani::cover!(true, \"VP:reached-call\");",
         "match impl_conversion_mat_to_mat_fxn(sv, tk) {"]
    if domain == "accept":
        R2, C2 = dims if dims else shape
        b += ["  Err(e) => { forget(e); assert!(false, \"VP:conversion-rejected\"); }",
              "  Ok(fx) => {", "    fx.solve();", "    let v = fx.out();", "    " + extract(t, ""),
              "    assert!(rows == %d && cols == %d, \"VP:wrong-shape\");" % (R2, C2),
              "    if rows * cols == %d {" % N]
        for k in range(N):
            b += ["      " + x for x in _elem_oracle(f, t, k)]
        b += ["    }", "    kani::cover!(true, \"VP:reached\");", "    forget(v); forget(fx);", "  }", "}"]
    else:
        b += ["  Err(e) => { kani::cover!(true, \"VP:rejected-err\"); forget(e); }",
              "  Ok(fx) => { fx.solve(); let v = fx.out(); assert!(false, \"VP:reshape-to-different-element-count-accepted\"); forget(v); forget(fx); }",
              "}"]
    b.append("forget(sc);")
    name = "c12_l2_mat_%s_%s_%s%dx%d_to_%s_%s" % (f, t, sform.lower(), R, C, "x".join(str(d) for d in dims) or "same", domain)
    h = H(name, "    " + "\n    ".join(b), WHERE_MM, domain=domain,
          key="L2/impl_conversion_mat_to_mat_fxn/%s->%s/%s%dx%d->%s/%s" % (f, t, sform, R, C, "x".join(str(d) for d in dims) or "same", domain),
          desc=("impl_conversion_mat_to_mat_fxn on a %dx%d %s %s annotated <[%s]:%s>: " % (R, C, f, sform, t, ",".join(str(d) for d in dims))) +
               ("accepted, target shape, elements in column-major order converted by the scalar rule" if domain == "accept"
                else "a shape with a different element count is an error, never a value"),
          functions=["impl_conversion_mat_to_mat_fxn (src/interpreter/src/stdlib/convert/mat_to_mat.rs: element-count test, kind table)",
                     "create_convert_mat_to_mat / create_reshape_mat_to_mat", "ConvertMatToMat2::solve/out"],
          bounds="source %dx%d, all element values" % (R, C), unwind=N + 2, tier=tier, group="L2mat", solver="kissat")
    # the 12-kind slice instantiates create_convert/create_reshape 144 times: goto-instrument runs out of 9 GB.  Only the kinds under test:
    from .c03 import SLICE_BASE
    h.slice = ",".join(dict.fromkeys(SLICE_BASE + [f, t]))
    h.heavy = True
    return h


def plan(tier, seed):
    hs = []
    pairs = [(f, t) for f in NUM for t in NUM]
    # quick: a rotating sample that always contains the float->int and narrowing classes
    import random
    rng = random.Random(seed)
    always = {("f64", "u8"), ("f64", "i64"), ("f32", "i16"), ("i64", "f64"), ("u8", "i8"), ("i16", "u8"), ("u64", "i64"), ("f64", "f32")}
    sample = set(rng.sample(pairs, 14)) | always
    for (f, t) in pairs:
        # the struct-level harnesses cost 2-4 s each: all 288 run in the quick tier
        hs.append(gen_scalar("ConvertScalarToScalar", f, t, "quick"))
        hs.append(gen_scalar("ConvertScalarToScalarBasic", f, t, "quick"))
    for f, t in (("u8", "u16"), ("i8", "i64"), ("u32", "u128"), ("i16", "f32"), ("u32", "f64"), ("f32", "f64"), ("i64", "i128")):
        hs.append(gen_widen_narrow(f, t, "quick" if (f, t) in (("u8", "u16"), ("i16", "f32")) else "thorough"))
    # Measured: impl_conversion_fxn (a 15 x 14 arm table plus table/set/option cases, all over heap-held ValueKind values) gets no
    # verdict in 15 min / 9 GB for a single pair; the dispatch harnesses exist (VERIF_C12_DISPATCH=1) but are not part of the claim.
    import os
    if os.environ.get("VERIF_C12_DISPATCH"):
        l2 = [("f64", "u8"), ("i16", "u8"), ("u8", "f64"), ("i64", "i32"), ("f64", "i64")]
        for k, (f, t) in enumerate(l2):
            hs.append(gen_dispatch(f, t, "quick" if k == seed % len(l2) else "thorough"))
        hs.append(gen_dispatch_reject("quick"))
    # matrices: same kind, widening, float -> integer; every storage form
    mats = [("convert", "f64", "f64", "MD", (2, 2), (2, 2)), ("convert", "u8", "u16", "RD", (1, 3), (1, 3)), ("convert", "f64", "u8", "VD", (3, 1), (3, 1)),
            ("convert", "i16", "f64", "MD", (2, 3), (2, 3)), ("convert", "i64", "i8", "RD", (1, 2), (1, 2)), ("convert", "u8", "u8", "VD", (2, 1), (2, 1)),
            ("reshape", "f64", "f64", "MD", (2, 3), (3, 2)), ("reshape", "f64", "f64", "MD", (2, 2), (4, 1)), ("reshape", "f64", "f64", "MD", (2, 2), (1, 4)),
            ("reshape", "f64", "f64", "RD", (1, 4), (2, 2)), ("reshape", "f64", "f64", "RD", (1, 3), (3, 1)), ("reshape", "f64", "f64", "VD", (4, 1), (2, 2)),
            ("reshape", "f64", "f64", "VD", (3, 1), (1, 3)), ("reshape", "u8", "u16", "MD", (2, 3), (6, 1)), ("reshape", "f64", "u8", "RD", (1, 6), (2, 3)),
            ("reshape", "u8", "u8", "VD", (6, 1), (3, 2)), ("reshape", "i16", "f64", "MD", (3, 2), (1, 6)),
            # float -> SIGNED integer elements (truncation toward zero of negative fractions; the matrix path has its own element cast,
            # lossless_into_float_to_int!), signed -> unsigned clamping
            ("convert", "f64", "i8", "RD", (1, 3), (1, 3)), ("convert", "f32", "i16", "MD", (2, 2), (2, 2)), ("convert", "f64", "i64", "VD", (2, 1), (2, 1)),
            ("convert", "i16", "u8", "VD", (3, 1), (3, 1)), ("reshape", "f64", "i32", "MD", (2, 2), (4, 1))]
    qm = {0, 6, 9, 11, 17, 18}
    for k, (fn, f, t, sf, sh, dm) in enumerate(mats):
        hs.append(gen_mat(fn, f, t, sf, sh, dm, "quick" if (k in qm or k % 5 == seed % 5) else "thorough"))
    l2m = [("f64", "f64", "MD", (2, 3), (3, 2), "accept"), ("f64", "f64", "MD", (2, 3), (2, 2), "reject"), ("f64", "f64", "RD", (1, 4), (2, 3), "reject"),
           ("u8", "u16", "VD", (3, 1), (), "accept"), ("f64", "f64", "MD", (2, 2), (5, 1), "reject")]
    for k, (f, t, sf, sh, dm, dom) in enumerate(l2m):
        hs.append(gen_mat_dispatch(f, t, sf, sh, dm, dom, "quick" if k < 2 else "thorough"))
    return {
        "harnesses": hs,
        "explanation": "Kani/CBMC over the conversion structs (ConvertScalarToScalar / ConvertScalarToScalarBasic with their LosslessInto / "
                       "LossyFrom impls) for all 144 ordered pairs of primitive numeric kinds with the source value symbolic, over the dispatch "
                       "function impl_conversion_fxn for a sample of pairs, and over matrix conversion / column-major reshape (create_*_mat_to_mat and "
                       "impl_conversion_mat_to_mat_fxn) with symbolic elements",
        "bounds": "scalars: all bit patterns, all 144 ordered pairs x both structs in both tiers; matrices: create_convert_mat_to_mat / "
                  "create_reshape_mat_to_mat for sources of <= 6 symbolic elements in the three storage forms, 6 kind pairs; "
                  "impl_conversion_mat_to_mat_fxn (dispatch, element-count check) for 5 shape pairs",
        "outside": ["impl_conversion_fxn dispatch for scalars: which struct family a pair is routed to, and `no conversion => error` (no verdict within 15 min; see generator)",
                    "matrix conversion for kind pairs other than the sampled ones (the element cast is the scalar one, decided for all 144 pairs)", "matrix -> set", "rational / complex / string "
                    "targets", "Value::convert_to", "kind annotation syntax -> ConvertKind call (statements.rs)"],
        "caps": {"quick_timeout": 900, "thorough_timeout": 1800, "heavy_jobs": 6, "heavy_rss_gb": 9},
    }
