"""C03 - indexing reads (1-based, column-major).

Every access dispatch function of src/interpreter/src/stdlib/access/matrix.rs has the signature
`fn(source: Value, ixes: Vec<Value>) -> MResult<Box<dyn MechFunction>>`; the harnesses call them in-crate (harness copy of
mech-interpreter, per-kind feature slice, kissat) with a symbolic source matrix and symbolic index values / index vectors /
masks, then `solve()` and `out()` of the returned function, and compare with a reference model written in the harness:
linear index k -> column-major element k-1, (r,c) -> element (r-1) + (c-1)*rows, masks select the true positions in order.
"""
from ..model import H
from .common import *

WHERE = ("interpreter", "src/stdlib/access/matrix.rs")
SLICE_BASE = ["f64", "bool", "string", "matrixd", "vectord", "row_vectord", "functions", "compiler", "access", "assign", "convert",
              "subscript_range", "logical_indexing", "subscript_formula", "matrix_horzcat", "matrix_vertcat", "range_default",
              "variable_define", "variable_assign", "kind_annotation", "tuple", "math_add", "math_sub"]

# index forms: S scalar, V index vector (len k), B mask (len m), A all
DISPATCH_1D = {"S": "impl_access_scalar_fxn", "V": "impl_access_range_fxn", "B": "impl_access_range_fxn", "A": "impl_access_all_fxn"}
DISPATCH_2D = {("S", "S"): "impl_access_scalar_scalar_fxn", ("A", "S"): "impl_access_all_scalar_fxn", ("S", "A"): "impl_access_scalar_all_fxn",
               ("V", "V"): "matrix_access_range_range_fxn", ("V", "B"): "matrix_access_range_range_fxn",
               ("B", "V"): "matrix_access_range_range_fxn", ("B", "B"): "matrix_access_range_range_fxn",
               ("A", "V"): "matrix_access_all_range_fxn", ("A", "B"): "matrix_access_all_range_fxn",
               ("V", "A"): "impl_access_range_all_fxn", ("B", "A"): "impl_access_range_all_fxn",
               ("V", "S"): "impl_access_range_scalar_fxn", ("B", "S"): "impl_access_range_scalar_fxn",
               ("S", "V"): "impl_access_scalar_range_fxn", ("S", "B"): "impl_access_scalar_range_fxn"}
MAXSEL = 3
DISPATCH_1D["K"] = DISPATCH_1D["B"]
for (_a, _b), _f in list(DISPATCH_2D.items()):
    DISPATCH_2D[(_a.replace("B", "K"), _b.replace("B", "K"))] = _f
    DISPATCH_2D[(_a.replace("B", "K"), _b)] = _f
    DISPATCH_2D[(_a, _b.replace("B", "K"))] = _f


def mask_txt(n):
    return "".join("1" if x else "0" for x in n)


def slice_for(t):
    return ",".join(dict.fromkeys(SLICE_BASE + [{"bool": "bool", "String": "string"}.get(t, t)]))


def sel_code(pos, form, dim, n):
    """rust statements defining, for index position `pos` over a dimension of (concrete) size `dim`:
       `sel{pos}: [usize; MAXSEL]` (0-based selected positions), `n{pos}: usize` (how many), `ok{pos}: bool` (index addresses
       only existing elements) and `iv{pos}`: the Value handed to the dispatch function.  n = index vector / mask length."""
    p = str(pos)
    c = []
    if form == "S":
        c.append("let i%s: usize = kani::any();" % p)
        c.append("let ok%s = i%s >= 1 && i%s <= %d;" % (p, p, p, dim))
        c.append("let n%s: usize = 1; let sel%s: [usize; %d] = [i%s.wrapping_sub(1), 0, 0];" % (p, p, MAXSEL, p))
        c.append("let iv%s = Value::Index(Ref::new(i%s));" % (p, p))
    elif form == "V":
        c.append("let i%s: [usize; %d] = kani::any();" % (p, n))
        c.append("let ok%s = %s;" % (p, " && ".join("i%s[%d] >= 1 && i%s[%d] <= %d" % (p, k, p, k, dim) for k in range(n))))
        c.append("let n%s: usize = %d; let sel%s: [usize; %d] = [%s];" % (p, n, p, MAXSEL, ", ".join(
            ("i%s[%d].wrapping_sub(1)" % (p, k)) if k < n else "0" for k in range(MAXSEL))))
        c.append("let iv%s = Value::MatrixIndex(Matrix::DVector(Ref::new(DVector::from_vec(i%s.to_vec()))));" % (p, p))
    elif form == "B":
        c.append("let i%s: [bool; %d] = kani::any();" % (p, n))
        c.append("let ok%s = %s;" % (p, "true" if n == dim else "false"))
        c.append("let mut sel%s: [usize; %d] = [0; %d]; let mut n%s: usize = 0;" % (p, MAXSEL, MAXSEL, p))
        c.append("{ let mut k = 0; while k < %d { if i%s[k] { if n%s < %d { sel%s[n%s] = k; } n%s += 1; } k += 1; } }" % (n, p, p, MAXSEL, p, p, p))
        c.append("kani::assume(n%s >= 1 && n%s <= %d);" % (p, p, MAXSEL))
        c.append("let iv%s = Value::MatrixBool(Matrix::DVector(Ref::new(DVector::from_vec(i%s.to_vec()))));" % (p, p))
    elif form == "K":
        # a CONCRETE mask (one harness per mask): the result length is then a constant for symbolic execution; the symbolic-mask
        # form "B" gets no verdict for accepted reads because the output allocation has a symbolic size
        bits = list(n)
        pos_ = [k for k, bit in enumerate(bits) if bit]
        assert 1 <= len(pos_) <= MAXSEL
        c.append("let i%s: [bool; %d] = [%s];" % (p, len(bits), ", ".join("true" if x else "false" for x in bits)))
        c.append("let ok%s = %s;" % (p, "true" if (len(bits) == dim) else "false"))
        c.append("let n%s: usize = %d; let sel%s: [usize; %d] = [%s];" % (p, len(pos_), p, MAXSEL, ", ".join(
            str(pos_[k]) if k < len(pos_) else "0" for k in range(MAXSEL))))
        c.append("let iv%s = Value::MatrixBool(Matrix::DVector(Ref::new(DVector::from_vec(i%s.to_vec()))));" % (p, p))
    elif form == "A":
        assert dim <= MAXSEL
        c.append("let ok%s = true; let n%s: usize = %d; let sel%s: [usize; %d] = [%s];" % (p, p, dim, p, MAXSEL, ", ".join(
            str(k) if k < dim else "0" for k in range(MAXSEL))))
        c.append("let iv%s = Value::IndexAll;" % p)
    return c


def extract(t, tag):
    """shape and element access on the result Value without loops (no collect): `rows`, `cols`, and closure `rd(k)` = k-th element
    in column-major order"""
    var = TY_VARIANT[t]
    return ("let (rows, cols): (usize, usize) = match &v { Value::%s(_) => (1, 1), Value::Matrix%s(m) => match m { "
            "Matrix::DVector(o) => { let o = o.borrow(); (o.nrows(), o.ncols()) }, Matrix::RowDVector(o) => { let o = o.borrow(); (o.nrows(), o.ncols()) }, "
            "Matrix::DMatrix(o) => { let o = o.borrow(); (o.nrows(), o.ncols()) }, _ => { assert!(false, \"VP:wrong-result-kind\"); (0, 0) } }, "
            "_ => { assert!(false, \"VP:wrong-result-kind\"); (0, 0) } };\n    "
            "let rd = |k: usize| -> %s { match &v { Value::%s(o) => o.borrow().clone(), Value::Matrix%s(m) => match m { "
            "Matrix::DVector(o) => o.borrow()[k].clone(), Matrix::RowDVector(o) => o.borrow()[k].clone(), Matrix::DMatrix(o) => o.borrow()[k].clone(), "
            "_ => %s }, _ => %s } };" % (var, var, t, var, var, default_of(t), default_of(t)))


def gen(t, sform, shape, forms, lens, domain, tier):
    """forms: tuple of 1 or 2 index forms; lens: matching index vector / mask lengths (ignored for S/A)"""
    R, C = shape
    N = R * C
    dims = (N,) if len(forms) == 1 else (R, C)
    if domain == "reject" and not any(f in "SV" or (f == "B" and n != d) or (f == "K" and len(n) != d) for f, d, n in zip(forms, dims, lens)):
        return None          # `:` and masks of exactly the dimension's length always address existing elements
    fxn = DISPATCH_1D[forms[0]] if len(forms) == 1 else DISPATCH_2D[forms]
    b = [sym_array(t, "src", N)]
    b.append("let sc = Ref::new(%s);" % mk_form(sform, t, "src", shape))
    b.append("let sv = %s;" % value_of(sform, t, "sc.clone()"))
    for pos, (f, d, n) in enumerate(zip(forms, dims, lens)):
        b += sel_code(pos, f, d, n)
    oks = " && ".join("ok%d" % p for p in range(len(forms)))
    ivs = ", ".join("iv%d" % p for p in range(len(forms)))
    name = "c03_%s_%s%dx%d_%s" % (t.lower(), sform.lower(), R, C, "_".join("%s%s" % (f.lower(), (mask_txt(n) if f == "K" else n) if f in "VBK" else "") for f, n in zip(forms, lens)))
    if domain == "accept":
        b.append("kani::assume(%s);" % oks)
        b.append("kani::cover!(true, \"VP:reached-call\");")
        b.append("let ixarr = [%s];" % ivs)
        b.append("match vp_%s(sv, &ixarr[..]) {" % fxn)
        b.append("  Err(e) => { forget(e); assert!(false, \"VP:rejected-valid-index\"); }")
        b.append("  Ok(f) => {")
        b.append("    f.solve();")
        b.append("    let v = f.out();")
        b.append("    " + extract(t, name))
        if len(forms) == 1:
            if forms[0] == "S":
                b.append("    assert!(rows == 1 && cols == 1, \"VP:wrong-shape\");")
            elif forms[0] == "A":
                b.append("    assert!(rows == %d && cols == 1, \"VP:wrong-shape\");" % N)
            else:
                b.append("    assert!((rows == n0 && cols == 1) || (rows == 1 && cols == n0), \"VP:wrong-shape\");")
            b.append("    assert!(rows * cols == n0, \"VP:wrong-length\");")
            b.append("    let mut ok = true;")
            for k in range(MAXSEL):
                b.append("    if %d < n0 && %d < rows * cols { let got = rd(%d); let want = src[sel0[%d]].clone(); if !%s { ok = false; } }"
                         % (k, k, k, k, eq_expr(t, "got", "want")))
        else:
            b.append("    assert!(rows == n0 && cols == n1, \"VP:wrong-shape\");")
            b.append("    let mut ok = true;")
            for c_ in range(MAXSEL):
                for r_ in range(MAXSEL):
                    b.append("    if %d < n0 && %d < n1 && rows == n0 && cols == n1 { let got = rd(%d + %d * n0); let want = src[sel0[%d] + sel1[%d] * %d].clone(); if !%s { ok = false; } }"
                             % (r_, c_, r_, c_, r_, c_, R, eq_expr(t, "got", "want")))
        b.append("    assert!(ok, \"VP:wrong-element\");")
        b.append("    { let s = sc.borrow(); assert!(%s, \"VP:source-modified\"); }" % " && ".join(eq_expr(t, "s[%d]" % q, "src[%d]" % q) for q in range(N)))
        b.append("    kani::cover!(true, \"VP:reached\");")
        b.append("    forget(v); forget(f);")
        b.append("  }")
        b.append("}")
    else:
        b.append("kani::assume(!(%s));" % oks)
        b.append("kani::cover!(true, \"VP:reached-call\");")
        b.append("let ixarr = [%s];" % ivs)
        b.append("match vp_%s(sv, &ixarr[..]) {" % fxn)
        b.append("  Err(e) => { kani::cover!(true, \"VP:rejected-err\"); forget(e); }")
        b.append("  Ok(f) => {")
        b.append("    f.solve();")
        b.append("    let v = f.out();")
        b.append("    assert!(false, \"VP:value-for-index-addressing-no-element\");")
        b.append("    forget(v); forget(f);")
        b.append("  }")
        b.append("}")
    b.append("forget(ixarr); forget(sc);")
    what = "x[%s]" % ",".join({"S": "i", "V": "[i..]", "B": "mask", "A": ":", "K": "mask="}[f] + ((mask_txt(n) if f == "K" else str(n)) if f in "VBK" else "") for f, n in zip(forms, lens))
    h = H(name + "_" + domain, "    " + "\n    ".join(b), WHERE, domain=domain,
          key="%s/%s/%s/%s" % (fxn, sform, "".join("%s%s" % (f, (mask_txt(n) if f == "K" else n) if f in "VBK" else "") for f, n in zip(forms, lens)), domain),
          desc=("%s on a %dx%d %s %s: " % (what, R, C, t, sform)) + (
              "accepted; documented result shape; every element is the one the 1-based column-major model selects; source unchanged"
              if domain == "accept" else "an index that addresses no element (0, past the end, mask length != dimension): error or panic, never a value"),
          functions=["%s (src/interpreter/src/stdlib/access/matrix.rs: dispatch arms, output allocation)" % fxn,
                     "Access* struct solve/out via dyn MechFunction (access_* kernel macros)"],
          bounds="source %dx%d, all element values; index values: all usize; index vectors / masks of length %s"
                 % (R, C, ",".join((mask_txt(n) + " (concrete)" if f == "K" else str(n)) for f, n in zip(forms, lens) if f in "VBK") or "-"),
          unwind=max([1] + [n for f_, n in zip(forms, lens) if f_ in "VB"] + [len(n) for f_, n in zip(forms, lens) if f_ == "K"] + [d for f_, d in zip(forms, dims) if f_ == "A"]) + 2, tier=tier, group=fxn, solver="kissat")
    h.slice = slice_for(t)
    h.heavy = True
    h.stub_kind = True
    return h


def plan(tier, seed):
    hs = []
    t = "f64"
    # 1-D forms over every storage form
    for sform, shape in (("RD", (1, 3)), ("VD", (3, 1)), ("MD", (2, 2))):
        N = shape[0] * shape[1]
        q = "quick" if sform == ["RD", "VD", "MD"][seed % 3] else "thorough"
        hs.append(gen(t, sform, shape, ("S",), (0,), "accept", "quick"))
        hs.append(gen(t, sform, shape, ("S",), (0,), "reject", "quick"))
        hs.append(gen(t, sform, shape, ("V",), (2,), "accept", q))
        hs.append(gen(t, sform, shape, ("V",), (1,), "accept", "thorough"))
        hs.append(gen(t, sform, shape, ("V",), (2,), "reject", q))
        hs.append(gen(t, sform, shape, ("B",), (N,), "accept", q))
        hs.append(gen(t, sform, shape, ("B",), (N + 1,), "reject", q))
        hs.append(gen(t, sform, shape, ("B",), (N - 1,), "reject", "thorough"))
        if N <= MAXSEL:
            hs.append(gen(t, sform, shape, ("A",), (0,), "accept", q))
    # 2-D forms over a 2x3 matrix
    shape = (2, 3)
    two = [(("S", "S"), (0, 0)), (("A", "S"), (0, 0)), (("S", "A"), (0, 0)), (("V", "V"), (2, 2)), (("V", "B"), (2, 3)), (("B", "V"), (2, 2)),
           (("B", "B"), (2, 3)), (("A", "V"), (0, 2)), (("A", "B"), (0, 3)), (("V", "A"), (2, 0)), (("B", "A"), (2, 0)), (("V", "S"), (2, 0)),
           (("B", "S"), (2, 0)), (("S", "V"), (0, 2)), (("S", "B"), (0, 3))]
    for k, (forms, lens) in enumerate(two):
        q = "quick" if (forms == ("S", "S") or k % 5 == seed % 5) else "thorough"
        # the slice forms x[i, a..b] / x[a..b, j] / x[a..b, c..d] are the ones with offset arithmetic: always in quick
        qa = "quick" if forms in (("S", "V"), ("V", "S"), ("V", "V")) else q
        hs.append(gen(t, "MD", shape, forms, lens, "accept", qa))
        if forms != ("A", "A"):
            hs.append(gen(t, "MD", shape, forms, lens, "reject", q))
        # masks of the wrong length are the interesting reject cases
        if "B" in forms:
            l2 = tuple((n + 1) if f == "B" else n for f, n in zip(forms, lens))
            hs.append(gen(t, "MD", shape, forms, l2, "reject", q))
    # a second element kind for the scalar forms (dispatch is by kind)
    for sform, shape in (("RD", (1, 3)), ("MD", (2, 2))):
        hs.append(gen("u8", sform, shape, ("S",), (0,), "accept", "thorough"))
        hs.append(gen("u8", sform, shape, ("V",), (2,), "accept", "thorough"))
    # accepted mask reads with CONCRETE masks (every non-empty mask of the dimension's length), elements symbolic
    import itertools
    kq = 0
    for sform, shape in (("RD", (1, 3)), ("VD", (3, 1)), ("MD", (2, 2))):
        N = shape[0] * shape[1]
        for bits in itertools.product((True, False), repeat=N):
            if not any(bits) or sum(bits) > MAXSEL:
                continue
            kq += 1
            hs.append(gen(t, sform, shape, ("K",), (bits,), "accept", "quick" if kq % 6 == seed % 6 else "thorough"))
    for forms, lens in ((("K", "S"), ((True, False), 0)), (("K", "S"), ((False, True), 0)), (("K", "S"), ((True, True), 0)),
                        (("S", "K"), (0, (True, False, True))), (("S", "K"), (0, (False, True, False))), (("S", "K"), (0, (True, True, True))),
                        (("A", "K"), (0, (True, False, True))), (("A", "K"), (0, (False, True, True))), (("K", "A"), ((False, True), 0)), (("K", "A"), ((True, True), 0)),
                        (("K", "K"), ((True, True), (True, False, True))), (("K", "K"), ((False, True), (False, True, True))),
                        (("V", "K"), (2, (True, False, True))), (("K", "V"), ((True, True), 2)), (("K", "V"), ((False, True), 2))):
        kq += 1
        hs.append(gen(t, "MD", (2, 3), forms, lens, "accept", "quick" if kq % 6 == seed % 6 else "thorough"))
    hs = [h for h in hs if h is not None]
    for h in hs:
        forms_ = h.key.split("/")[2]
        two_d = h.key.split("/")[0] in set(DISPATCH_2D.values())
        if h.name == "c03_f64_md2x3_v2_v2_accept":
            h.tier = "off"
            h.off_reason = "x[[i..],[j..]] with two index vectors: out of 9 GB in the propositional reduction (measured 2026-09-24)"
        if "B" in forms_ and (h.domain == "accept" or two_d):
            h.tier = "off"
            h.off_reason = ("logical-mask read whose result length is the (symbolic) number of true bits: CBMC ran out of 9 GB in the "
                            "propositional reduction / no verdict in 900 s (measured 2026-09-24)")
    src = read_repo("src/interpreter/src/stdlib/access/matrix.rs")
    prelude, extracted = "", {}
    for fx in sorted(set(list(DISPATCH_1D.values()) + list(DISPATCH_2D.values()))):
        t_, h_ = extract_dispatch_fn(src, fx, "src/interpreter/src/stdlib/access/matrix.rs")
        prelude += t_
        extracted[fx] = h_
    return {
        "harnesses": hs,
        "incrate_prelude": {WHERE: prelude},
        "extracted": extracted,
        "explanation": "Kani/CBMC over the real access dispatch functions (impl_access_*_fxn / matrix_access_*_fxn) and the Access* kernels they "
                       "build, in the harness copy of mech-interpreter under a per-kind feature slice, with kissat; source elements, index "
                       "values, index vectors and mask bits symbolic",
        "bounds": "sources 1x3, 3x1, 2x2, 2x3; index vectors of length 2, masks of length dim-1/dim/dim+1, at most %d selected positions "
                  "per dimension; element kinds f64 (u8 for scalar/vector forms, thorough)" % MAXSEL,
        "outside": ["logical-mask reads that are accepted, and every 2-D form with a mask: no verdict (see excluded_no_verdict); only the rejection of 1-D masks of "
                    "the wrong length is decided", "subscript(): syntax -> index Values (as_index conversions, range evaluation)", "the `Vec<Value>` parameter of the dispatch functions: their bodies are copied verbatim with `ixes: &[Value]` (see extract_dispatch_fn)", "sources larger than 2x3",
                    "swizzle / dot access / tables / maps / tuples", "fixed-size storage forms", "the NativeFunctionCompiler wrappers"],
        "caps": {"quick_timeout": 900, "thorough_timeout": 2400, "heavy_jobs": 6, "heavy_rss_gb": 9},
    }
