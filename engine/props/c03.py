"""C03 - indexing reads (1-based, column-major).

Every access dispatch function of src/interpreter/src/stdlib/access/matrix.rs has the signature
`fn(source: Value, ixes: Vec<Value>) -> MResult<Box<dyn MechFunction>>`; the harnesses call them in-crate (harness copy of
mech-interpreter, per-kind feature slice, kissat) with a symbolic source matrix and symbolic index values / index vectors /
masks, then `solve()` and `out()` of the returned function, and compare with a reference model written in the harness:
linear index k -> column-major element k-1, (r,c) -> element (r-1) + (c-1)*rows, masks select the true positions in order.
"""
from ..model import H
from .common import *

WHERE = ("interpreter", "src/stdlib/access/matrix.rs")
SLICE_BASE = ["f64", "bool", "string", "matrixd", "vectord", "row_vectord", "functions", "compiler", "access", "assign", "convert",
              "subscript_range", "logical_indexing", "subscript_formula", "matrix_horzcat", "matrix_vertcat", "range_default",
              "variable_define", "variable_assign", "kind_annotation", "tuple", "math_add", "math_sub"]

# index forms: S scalar, V index vector (len k), B mask (len m), A all
DISPATCH_1D = {"S": "impl_access_scalar_fxn", "V": "impl_access_range_fxn", "B": "impl_access_range_fxn", "A": "impl_access_all_fxn"}
DISPATCH_2D = {("S", "S"): "impl_access_scalar_scalar_fxn", ("A", "S"): "impl_access_all_scalar_fxn", ("S", "A"): "impl_access_scalar_all_fxn",
               ("V", "V"): "matrix_access_range_range_fxn", ("V", "B"): "matrix_access_range_range_fxn",
               ("B", "V"): "matrix_access_range_range_fxn", ("B", "B"): "matrix_access_range_range_fxn",
               ("A", "V"): "matrix_access_all_range_fxn", ("A", "B"): "matrix_access_all_range_fxn",
               ("V", "A"): "impl_access_range_all_fxn", ("B", "A"): "impl_access_range_all_fxn",
               ("V", "S"): "impl_access_range_scalar_fxn", ("B", "S"): "impl_access_range_scalar_fxn",
               ("S", "V"): "impl_access_scalar_range_fxn", ("S", "B"): "impl_access_scalar_range_fxn"}
MAXSEL = 3
DISPATCH_1D["K"] = DISPATCH_1D["B"]
for (_a, _b), _f in list(DISPATCH_2D.items()):
    DISPATCH_2D[(_a.replace("B", "K"), _b.replace("B", "K"))] = _f
    DISPATCH_2D[(_a.replace("B", "K"), _b)] = _f
    DISPATCH_2D[(_a, _b.replace("B", "K"))] = _f


def mask_txt(n):
    return "".join("1" if x else "0" for x in n)


def slice_for(t):
    return ",".join(dict.fromkeys(SLICE_BASE + [{"bool": "bool", "String": "string"}.get(t, t)]))


def sel_code(pos, form, dim, n):
    """rust statements defining, for index position `pos` over a dimension of (concrete) size `dim`:
       `sel{pos}: [usize; MAXSEL]` (0-based selected positions), `n{pos}: usize` (how many), `ok{pos}: bool` (index addresses
       only existing elements) and `iv{pos}`: the Value handed to the dispatch function.  n = index vector / mask length."""
    p = str(pos)
    c = []
    if form == "S":
        c.append("let i%s: usize = kani::any();" % p)
        c.append("let ok%s = i%s >= 1 && i%s <= %d;" % (p, p, p, dim))
        c.append("let n%s: usize = 1; let sel%s: [usize; %d] = [i%s.wrapping_sub(1), 0, 0];" % (p, p, MAXSEL, p))
        c.append("let iv%s = Value::Index(Ref::new(i%s));" % (p, p))
    elif form == "V":
        c.append("let i%s: [usize; %d] = kani::any();" % (p, n))
        c.append("let ok%s = %s;" % (p, " && ".join("i%s[%d] >= 1 && i%s[%d] <= %d" % (p, k, p, k, dim) for k in range(n))))
        c.append("let n%s: usize = %d; let sel%s: [usize; %d] = [%s];" % (p, n, p, MAXSEL, ", ".join(
            ("i%s[%d].wrapping_sub(1)" % (p, k)) if k < n else "0" for k in range(MAXSEL))))
        c.append("let iv%s = Value::MatrixIndex(Matrix::DVector(Ref::new(DVector::from_vec(i%s.to_vec()))));" % (p, p))
    elif form == "B":
        c.append("let i%s: [bool; %d] = kani::any();" % (p, n))
        c.append("let ok%s = %s;" % (p, "true" if n == dim else "false"))
        c.append("let mut sel%s: [usize; %d] = [0; %d]; let mut n%s: usize = 0;" % (p, MAXSEL, MAXSEL, p))
        c.append("{ let mut k = 0; while k < %d { if i%s[k] { if n%s < %d { sel%s[n%s] = k; } n%s += 1; } k += 1; } }" % (n, p, p, MAXSEL, p, p, p))
        c.append("kani::assume(n%s >= 1 && n%s <= %d);" % (p, p, MAXSEL))
        c.append("let iv%s = Value::MatrixBool(Matrix::DVector(Ref::new(DVector::from_vec(i%s.to_vec()))));" % (p, p))
    elif form == "K":
        # a CONCRETE mask (one harness per mask): the result length is then a constant for symbolic execution; the symbolic-mask
        # form "B" gets no verdict for accepted reads because the output allocation has a symbolic size
        bits = list(n)
        pos_ = [k for k, bit in enumerate(bits) if bit]
        assert 1 <= len(pos_) <= MAXSEL
        c.append("let i%s: [bool; %d] = [%s];" % (p, len(bits), ", ".join("true" if x else "false" for x in bits)))
        c.append("let ok%s = %s;" % (p, "true" if (len(bits) == dim) else "false"))
        c.append("let n%s: usize = %d; let sel%s: [usize; %d] = [%s];" % (p, len(pos_), p, MAXSEL, ", ".join(
            str(pos_[k]) if k < len(pos_) else "0" for k in range(MAXSEL))))
        c.append("let iv%s = Value::MatrixBool(Matrix::DVector(Ref::new(DVector::from_vec(i%s.to_vec()))));" % (p, p))
    elif form == "A":
        assert dim <= MAXSEL
        c.append("let ok%s = true; let n%s: usize = %d; let sel%s: [usize; %d] = [%s];" % (p, p, dim, p, MAXSEL, ", ".join(
            str(k) if k < dim else "0" for k in range(MAXSEL))))
        c.append("let iv%s = Value::IndexAll;" % p)
    return c


def extract(t, tag):
    """shape and element access on the result Value without loops (no collect): `rows`, `cols`, and closure `rd(k)` = k-th element
    in column-major order"""
    var = TY_VARIANT[t]
    return ("let (rows, cols): (usize, usize) = match &v { Value::%s(_) => (1, 1), Value::Matrix%s(m) => match m { "
            "Matrix::DVector(o) => { let o = o.borrow(); (o.nrows(), o.ncols()) }, Matrix::RowDVector(o) => { let o = o.borrow(); (o.nrows(), o.ncols()) }, "
            "Matrix::DMatrix(o) => { let o = o.borrow(); (o.nrows(), o.ncols()) }, _ => { assert!(false, \"VP:wrong-result-kind\"); (0, 0) } }, "
            "_ => { assert!(false, \"VP:wrong-result-kind\"); (0, 0) } };\n    "
            "let rd = |k: usize| -> %s { match &v { Value::%s(o) => o.borrow().clone(), Value::Matrix%s(m) => match m { "
            "Matrix::DVector(o) => o.borrow()[k].clone(), Matrix::RowDVector(o) => o.borrow()[k].clone(), Matrix::DMatrix(o) => o.borrow()[k].clone(), "
            "_ => %s }, _ => %s } };" % (var, var, t, var, var, default_of(t), default_of(t)))


def gen(t, sform, shape, forms, lens, domain, tier):
    """forms: tuple of 1 or 2 index forms; lens: matching index vector / mask lengths (ignored for S/A)"""
    R, C = shape
    N = R * C
    dims = (N,) if len(forms) == 1 else (R, C)
    if domain == "reject" and not any(f in "SV" or (f == "B" and n != d) or (f == "K" and len(n) != d) for f, d, n in zip(forms, dims, lens)):
        return None          # `:` and masks of exactly the dimension's length always address existing elements
    fxn = DISPATCH_1D[forms[0]] if len(forms) == 1 else DISPATCH_2D[forms]
    b = [sym_array(t, "src", N)]
    b.append("let sc = Ref::new(%s);" % mk_form(sform, t, "src", shape))
    b.append("let sv = %s;" % value_of(sform, t, "sc.clone()"))
    for pos, (f, d, n) in enumerate(zip(forms, dims, lens)):
        b += sel_code(pos, f, d, n)
    oks = " && ".join("ok%d" % p for p in range(len(forms)))
    ivs = ", ".join("iv%d" % p for p in range(len(forms)))
    name = "c03_%s_%s%dx%d_%s" % (t.lower(), sform.lower(), R, C, "_".join("%s%s" % (f.lower(), (mask_txt(n) if f == "K" else n) if f in "VBK" else "") for f, n in zip(forms, lens)))
    if domain == "accept":
        b.append("kani::assume(%s);" % oks)
        b.append("kani::cover!(true, \"VP:reached-call\");")
        b.append("let ixarr = [%s];" % ivs)
        b.append("match vp_%s(sv, &ixarr[..]) {" % fxn)
        b.append("  Err(e) => { forget(e); assert!(false, \"VP:rejected-valid-index\"); }")
        b.append("  Ok(f) => {")
        b.append("    f.solve();")
        b.append("    let v = f.out();")
        b.append("    " + extract(t, name))
        if len(forms) == 1:
            if forms[0] == "S":
                b.append("    assert!(rows == 1 && cols == 1, \"VP:wrong-shape\");")
            elif forms[0] == "A":
                b.append("    assert!(rows == %d && cols == 1, \"VP:wrong-shape\");" % N)
            else:
                b.append("    assert!((rows == n0 && cols == 1) || (rows == 1 && cols == n0), \"VP:wrong-shape\");")
            b.append("    assert!(rows * cols == n0, \"VP:wrong-length\");")
            b.append("    let mut ok = true;")
            for k in range(MAXSEL):
                b.append("    if %d < n0 && %d < rows * cols { let got = rd(%d); let want = src[sel0[%d]].clone(); if !%s { ok = false; } }"
                         % (k, k, k, k, eq_expr(t, "got", "want")))
        else:
            b.append("    assert!(rows == n0 && cols == n1, \"VP:wrong-shape\");")
            b.append("    let mut ok = true;")
            for c_ in range(MAXSEL):
                for r_ in range(MAXSEL):
                    b.append("    if %d < n0 && %d < n1 && rows == n0 && cols == n1 { let got = rd(%d + %d * n0); let want = src[sel0[%d] + sel1[%d] * %d].clone(); if !%s { ok = false; } }"
                             % (r_, c_, r_, c_, r_, c_, R, eq_expr(t, "got", "want")))
        b.append("    assert!(ok, \"VP:wrong-element\");")
        b.append("    { let s = sc.borrow(); assert!(%s, \"VP:source-modified\"); }" % " && ".join(eq_expr(t, "s[%d]" % q, "src[%d]" % q) for q in range(N)))
        b.append("    kani::cover!(true, \"VP:reached\");")
        b.append("    forget(v); forget(f);")
        b.append("  }")
        b.append("}")
    else:
        b.append("kani::assume(!(%s));" % oks)
        b.append("kani::cover!(true, \"VP:reached-call\");")
        b.append("let ixarr = [%s];" % ivs)
        b.append("match vp_%s(sv, &ixarr[..]) {" % fxn)
        b.append("  Err(e) => { kani::cover!(true, \"VP:rejected-err\"); forget(e); }")
        b.append("  Ok(f) => {")
        b.append("    f.solve();")
        b.append("    let v = f.out();")
        b.append("    assert!(false, \"VP:value-for-index-addressing-no-element\");")
        b.append("    forget(v); forget(f);")
        b.append("  }")
        b.append("}")
    b.append("forget(ixarr); forget(sc);")
    what = "x[%s]" % ",".join({"S": "i", "V": "[i..]", "B": "mask", "A": ":", "K": "mask="}[f] + ((mask_txt(n) if f == "K" else str(n)) if f in "VBK" else "") for f, n in zip(forms, lens))
    h = H(name + "_" + domain, "    " + "\n    ".join(b), WHERE, domain=domain,
          key="%s/%s/%s/%s" % (fxn, sform, "".join("%s%s" % (f, (mask_txt(n) if f == "K" else n) if f in "VBK" else "") for f, n in zip(forms, lens)), domain),
          desc=("%s on a %dx%d %s %s: " % (what, R, C, t, sform)) + (
              "accepted; documented result shape; every element is the one the 1-based column-major model selects; source unchanged"
              if domain == "accept" else "an index that addresses no element (0, past the end, mask length != dimension): error or panic, never a value"),
          functions=["%s (src/interpreter/src/stdlib/access/matrix.rs: dispatch arms, output allocation)" % fxn,
                     "Access* struct solve/out via dyn MechFunction (access_* kernel macros)"],
          bounds="source %dx%d, all element values; index values: all usize; index vectors / masks of length %s"
                 % (R, C, ",".join((mask_txt(n) + " (concrete)" if f == "K" else str(n)) for f, n in zip(forms, lens) if f in "VBK") or "-"),
          unwind=max([1] + [n for f_, n in zip(forms, lens) if f_ in "VB"] + [len(n) for f_, n in zip(forms, lens) if f_ == "K"] + [d for f_, d in zip(forms, dims) if f_ == "A"]) + 2, tier=tier, group=fxn, solver="kissat")
    h.slice = slice_for(t)
    h.heavy = True
    h.stub_kind = True
    return h


# ------------------------------------------------------------------------------------ L1: mask reads on the Access* structs
def gen_l1_mask(t, fam, sform, shape, m0, m1, tier):
    """The mask-read structs built the way their dispatch arms build them (output allocated as the arm allocates it), with CONCRETE
    masks - one harness per mask - and symbolic source elements / scalar indices.  Why concrete: the kernels resize their output to
    the number of true bits; with a symbolic mask that is an allocation of symbolic size, which gets no verdict.
      1DVDb   x[mask]            Access1DVDb{RD,VD,MD}     m0 over all elements
      2DVDbA  x[mask, :]         Access2DVDbAMD            m0 over rows
      2DVDbS  x[mask, j]         Access2DVDbSMD            m0 over rows, j symbolic
      2DSVDb  x[i, mask]         Access2DSVDbMD            m1 over columns, i symbolic
      2DRRVBB x[mask, mask]      Access2DRRVBB             m0 rows, m1 columns
      2DRRVUB x[[i..], mask]     Access2DRRVUB             2 symbolic row indices, m1 columns
      2DRRVBU x[mask, [j..]]     Access2DRRVBU             m0 rows, 2 symbolic column indices"""
    R, C = shape
    N = R * C
    mat = SHAPE_IDENT[sform]
    b = [sym_array(t, "src", N), "let sc = Ref::new(%s);" % mk_form(sform, t, "src", shape)]
    d = default_of(t)
    pre = []

    def maskdecl(nm, bits):
        return ["let %s: [bool; %d] = [%s];" % (nm, len(bits), ", ".join("true" if x else "false" for x in bits)),
                "let %sc = Ref::new(DVector::<bool>::from_vec(%s.to_vec()));" % (nm, nm)]
    sel0 = None if m0 is None else [k for k, x in enumerate(m0) if x]
    sel1 = None if m1 is None else [k for k, x in enumerate(m1) if x]
    want = []          # (rust expr of the expected element) in column-major order of the result
    if fam == "1DVDb":
        b += maskdecl("m0", m0)
        b.append("let out = Ref::new(DVector::<%s>::from_element(%d, %s));" % (t, len(m0), d))
        b.append("let f = Access1DVDb%s::<%s> { source: sc.clone(), ixes: m0c.clone(), out: out.clone() };" % (sform, t))
        rr, rc = len(sel0), 1
        want = ["src[%d]" % k for k in sel0]
        shape_ok = "(rows == %d && cols == 1) || (rows == 1 && cols == %d)" % (rr, rr)
    elif fam == "2DVDbA":
        b += maskdecl("m0", m0)
        b.append("let out = Ref::new(DMatrix::<%s>::from_element(%d, %d, %s));" % (t, len(m0), C, d))
        b.append("let f = Access2DVDbAMD::<%s> { source: sc.clone(), ixes: m0c.clone(), out: out.clone() };" % t)
        rr, rc = len(sel0), C
        want = ["src[%d]" % (r + c * R) for c in range(C) for r in sel0]
        shape_ok = "rows == %d && cols == %d" % (rr, rc)
    elif fam == "2DVDbS":
        b += maskdecl("m0", m0)
        b += ["let j: usize = kani::any();", "let jc = Ref::new(j);"]
        pre.append("j >= 1 && j <= %d" % C)
        b.append("let out = Ref::new(DVector::<%s>::from_element(%d, %s));" % (t, len(m0), d))
        b.append("let f = Access2DVDbSMD::<%s> { source: sc.clone(), ix1: m0c.clone(), ix2: jc.clone(), out: out.clone() };" % t)
        rr, rc = len(sel0), 1
        want = ["src[%d + (j - 1) * %d]" % (r, R) for r in sel0]
        shape_ok = "rows == %d && cols == 1" % rr
    elif fam == "2DSVDb":
        b += maskdecl("m1", m1)
        b += ["let i: usize = kani::any();", "let ic = Ref::new(i);"]
        pre.append("i >= 1 && i <= %d" % R)
        b.append("let out = Ref::new(RowDVector::<%s>::from_element(%d, %s));" % (t, len(m1), d))
        b.append("let f = Access2DSVDbMD::<%s> { source: sc.clone(), ix1: ic.clone(), ix2: m1c.clone(), out: out.clone() };" % t)
        rr, rc = 1, len(sel1)
        want = ["src[(i - 1) + %d * %d]" % (c, R) for c in sel1]
        shape_ok = "rows == 1 && cols == %d" % rc
    else:
        K = 2
        if fam in ("2DRRVBB", "2DRRVBU"):
            b += maskdecl("m0", m0)
            rows = [str(r) for r in sel0]
            ix1, t1 = "m0c.clone()", "bool"
        else:
            b += ["let r0: [usize; %d] = kani::any();" % K, "let r0c = Ref::new(DVector::<usize>::from_vec(r0.to_vec()));"]
            pre += ["r0[%d] >= 1 && r0[%d] <= %d" % (k, k, R) for k in range(K)]
            rows = ["(r0[%d] - 1)" % k for k in range(K)]
            ix1, t1 = "r0c.clone()", "usize"
        if fam in ("2DRRVBB", "2DRRVUB"):
            b += maskdecl("m1", m1)
            cols = [str(c) for c in sel1]
            ix2, t2 = "m1c.clone()", "bool"
        else:
            b += ["let c0: [usize; %d] = kani::any();" % K, "let c0c = Ref::new(DVector::<usize>::from_vec(c0.to_vec()));"]
            pre += ["c0[%d] >= 1 && c0[%d] <= %d" % (k, k, C) for k in range(K)]
            cols = ["(c0[%d] - 1)" % k for k in range(K)]
            ix2, t2 = "c0c.clone()", "usize"
        rr, rc = len(rows), len(cols)
        # the arm's allocation rule: (cols, rows) = (1,1) -> 1x1 DMatrix, (1,_) -> DVector(rows), (_,1) -> RowDVector(cols), else DMatrix(rows, cols)
        if rc == 1 and rr == 1:
            oty, oexpr = "DMatrix", "DMatrix::<%s>::from_element(1, 1, %s)" % (t, d)
        elif rc == 1:
            oty, oexpr = "DVector", "DVector::<%s>::from_element(%d, %s)" % (t, rr, d)
        elif rr == 1:
            oty, oexpr = "RowDVector", "RowDVector::<%s>::from_element(%d, %s)" % (t, rc, d)
        else:
            oty, oexpr = "DMatrix", "DMatrix::<%s>::from_element(%d, %d, %s)" % (t, rr, rc, d)
        b.append("let out = Ref::new(%s);" % oexpr)
        b.append("let f = Access%s::<%s, %s<%s>, %s<%s>, DVector<%s>, DVector<%s>> { source: sc.clone(), ixes: (%s, %s), sink: out.clone(), _marker: ::std::marker::PhantomData };"
                 % (fam, t, oty, t, mat, t, t1, t2, ix1, ix2))
        want = ["src[%s + %s * %d]" % (r, c, R) for c in cols for r in rows]
        shape_ok = "rows == %d && cols == %d" % (rr, rc)
    if pre:
        b.append("kani::assume(%s);" % " && ".join(pre))       # before solve(): the constructors above only store the values
    b.append("f.solve();")
    b.append("let v = f.out();")
    b.append(extract(t, ""))
    b.append("assert!(%s, \"VP:wrong-shape\");" % shape_ok)
    b.append("if rows * cols == %d { assert!(%s, \"VP:wrong-element\"); }" % (len(want), " && ".join(eq_expr(t, "rd(%d)" % k, w) for k, w in enumerate(want))))
    b.append("{ let s_ = sc.borrow(); assert!(%s, \"VP:source-modified\"); }" % " && ".join(eq_expr(t, "s_[%d]" % q, "src[%d]" % q) for q in range(N)))
    # C19 rider: a second solve() (what a re-evaluation step does) gives the same value - the mask kernels resize their output
    b.append("f.solve(); let v2 = f.out();")
    b.append("{ let v = v2; " + extract(t, "").replace("\n    ", " ") + " assert!(%s, \"VP:second-solve-differs\"); if rows * cols == %d { assert!(%s, \"VP:second-solve-differs\"); } forget(v); }"
             % (shape_ok, len(want), " && ".join(eq_expr(t, "rd(%d)" % k, w) for k, w in enumerate(want))))
    b.append("kani::cover!(true, \"VP:reached\");")
    b.append("forget(v); forget(f); forget(out); forget(sc);")
    tag = "%s%s" % (("r" + mask_txt(m0)) if m0 is not None else "", ("c" + mask_txt(m1)) if m1 is not None else "")
    h = H("c03_l1_%s_%s_%s%dx%d_%s" % (fam.lower(), t.lower(), sform.lower(), R, C, tag), "    " + "\n    ".join(x for x in b if x), WHERE, domain="accept",
          key="L1/Access%s/%s/%s/%s" % (fam, t, sform, tag),
          desc="Access%s<%s> on a symbolic %dx%d %s with the concrete mask(s) %s, output allocated as the dispatch arm allocates it: documented result "
               "shape, every element is the one the 1-based column-major model selects, source unchanged" % (fam, t, R, C, sform, tag),
          functions=["Access%s::solve/out (src/interpreter/src/stdlib/access/matrix.rs: struct macro + access_* kernel macro)" % fam],
          bounds="source %dx%d, all element values; mask(s) concrete (one harness per mask); scalar / vector indices: all in-range values" % (R, C),
          unwind=max(N, len(m0 or []), len(m1 or [])) + 2, tier=tier, group="L1-mask")
    h.slice = slice_for(t)
    return h


def gen_l1_ix(t, fam, sform, shape, m1, tier, K=2, domain="accept"):
    """L1 for the index-vector read structs (symbolic index vectors of length K, repeats allowed) and the x[:, cols] / x[:, mask] structs.
    K = 3 exists because a vector of two entries cannot have an interior: a kernel that infers "consecutive run" from its end points
    (seeded changes C03-3, C04-3) is only wrong for three or more entries."""
    R, C = shape
    N = R * C
    mat = SHAPE_IDENT[sform]
    d = default_of(t)
    b = [sym_array(t, "src", N), "let sc = Ref::new(%s);" % mk_form(sform, t, "src", shape)]
    pre = []

    oor = []          # reject domain: "this entry addresses no row / column / element"
    def ixdecl(nm, dim):
        if domain == "accept":
            pre.extend("%s[%d] >= 1 && %s[%d] <= %d" % (nm, k, nm, k, dim) for k in range(K))
        else:
            pre.extend("%s[%d] <= %d" % (nm, k, dim + 2) for k in range(K))
            oor.extend("%s[%d] == 0 || %s[%d] > %d" % (nm, k, nm, k, dim) for k in range(K))
        return ["let %s: [usize; %d] = kani::any();" % (nm, K), "let %sc = Ref::new(DVector::<usize>::from_vec(%s.to_vec()));" % (nm, nm)]
    if fam == "1DVD":
        b += ixdecl("i0", N)
        b.append("let out = Ref::new(DVector::<%s>::from_element(%d, %s));" % (t, K, d))
        b.append("let f = Access1DVD%s::<%s> { source: sc.clone(), ixes: i0c.clone(), out: out.clone() };" % (sform, t))
        want = ["src[i0[%d] - 1]" % k for k in range(K)]
        shape_ok = "(rows == %d && cols == 1) || (rows == 1 && cols == %d)" % (K, K)
    elif fam == "2DVDA":
        b += ixdecl("i0", R)
        b.append("let out = Ref::new(DMatrix::<%s>::from_element(%d, %d, %s));" % (t, K, C, d))
        b.append("let f = Access2DVDAMD::<%s> { source: sc.clone(), ixes: i0c.clone(), out: out.clone() };" % t)
        want = ["src[(i0[%d] - 1) + %d * %d]" % (k, c, R) for c in range(C) for k in range(K)]
        shape_ok = "rows == %d && cols == %d" % (K, C)
    elif fam == "2DVDS":
        b += ixdecl("i0", R)
        b += ["let j: usize = kani::any();", "let jc = Ref::new(j);"]
        pre.append("j >= 1 && j <= %d" % C)
        b.append("let out = Ref::new(DVector::<%s>::from_element(%d, %s));" % (t, K, d))
        b.append("let f = Access2DVDSMD::<%s> { source: sc.clone(), ix1: i0c.clone(), ix2: jc.clone(), out: out.clone() };" % t)
        want = ["src[(i0[%d] - 1) + (j - 1) * %d]" % (k, R) for k in range(K)]
        shape_ok = "rows == %d && cols == 1" % K
    elif fam == "2DSVD":
        b += ixdecl("i1", C)
        b += ["let i: usize = kani::any();", "let ic = Ref::new(i);"]
        pre.append("i >= 1 && i <= %d" % R)
        b.append("let out = Ref::new(RowDVector::<%s>::from_element(%d, %s));" % (t, K, d))
        b.append("let f = Access2DSVDMD::<%s> { source: sc.clone(), ix1: ic.clone(), ix2: i1c.clone(), out: out.clone() };" % t)
        want = ["src[(i - 1) + (i1[%d] - 1) * %d]" % (k, R) for k in range(K)]
        shape_ok = "rows == 1 && cols == %d" % K
    elif fam == "2DRRVUU":
        b += ixdecl("i0", R) + ixdecl("i1", C)
        b.append("let out = Ref::new(DMatrix::<%s>::from_element(%d, %d, %s));" % (t, K, K, d))
        b.append("let f = Access2DRRVUU::<%s, DMatrix<%s>, %s<%s>, DVector<usize>, DVector<usize>> { source: sc.clone(), ixes: (i0c.clone(), i1c.clone()), sink: out.clone(), _marker: ::std::marker::PhantomData };" % (t, t, mat, t))
        want = ["src[(i0[%d] - 1) + (i1[%d] - 1) * %d]" % (r, c, R) for c in range(K) for r in range(K)]
        shape_ok = "rows == %d && cols == %d" % (K, K)
    elif fam == "2DARV":
        b += ixdecl("i1", C)
        b.append("let out = Ref::new(DMatrix::<%s>::from_element(%d, %d, %s));" % (t, R, K, d))
        b.append("let f = Access2DARV::<%s, DMatrix<%s>, %s<%s>, DVector<usize>> { source: sc.clone(), ixes: i1c.clone(), sink: out.clone(), _marker: ::std::marker::PhantomData };" % (t, t, mat, t))
        want = ["src[%d + (i1[%d] - 1) * %d]" % (r, c, R) for c in range(K) for r in range(R)]
        shape_ok = "rows == %d && cols == %d" % (R, K)
    elif fam == "2DARVB":
        sel1 = [k for k, x in enumerate(m1) if x]
        b += ["let m1: [bool; %d] = [%s];" % (len(m1), ", ".join("true" if x else "false" for x in m1)),
              "let m1c = Ref::new(DVector::<bool>::from_vec(m1.to_vec()));"]
        if len(sel1) == 1 and R != 1:
            oty, oexpr = "DVector", "DVector::<%s>::from_element(%d, %s)" % (t, R, d)
        else:
            oty, oexpr = "DMatrix", "DMatrix::<%s>::from_element(%d, %d, %s)" % (t, R, len(sel1), d)
        b.append("let out = Ref::new(%s);" % oexpr)
        b.append("let f = Access2DARVB::<%s, %s<%s>, %s<%s>, DVector<bool>> { source: sc.clone(), ixes: m1c.clone(), sink: out.clone(), _marker: ::std::marker::PhantomData };" % (t, oty, t, mat, t))
        want = ["src[%d + %d * %d]" % (r, c, R) for c in sel1 for r in range(R)]
        shape_ok = "rows == %d && cols == %d" % (R, len(sel1))
    else:
        raise ValueError(fam)
    if domain == "reject":
        if not oor:
            return None
        pre.append("(" + ") || (".join(oor) + ")")
        b.append("kani::assume(%s);" % " && ".join("(%s)" % x for x in pre))
        b.append("kani::cover!(true, \"VP:reached-call\");")
        b.append("f.solve();")
        b.append("assert!(false, \"VP:value-for-index-addressing-no-element\");")
        b.append("forget(f); forget(out); forget(sc);")
        h = H("c03_l1_%s_%s_%s%dx%d_ix%d_reject" % (fam.lower(), t.lower(), sform.lower(), R, C, K), "    " + "\n    ".join(x for x in b if x), WHERE, domain="reject",
              key="L1/Access%s/%s/%s/ix%d/reject" % (fam, t, sform, K),
              desc="Access%s<%s> on a symbolic %dx%d %s with index vectors of %d entries of which at least one is 0 or beyond its dimension: solve() must not "
                   "return (bounds-check panic = the error the interpreter reports), whatever the other entries are" % (fam, t, R, C, sform, K),
              functions=["Access%s::solve (src/interpreter/src/stdlib/access/matrix.rs: struct macro + access_* kernel macro)" % fam],
              bounds="source %dx%d; index entries 0..dim+2, at least one out of range" % (R, C), unwind=max(N, K) + 2, tier=tier, group="L1-ix-reject")
        h.slice = slice_for(t)
        return h
    if pre:
        b.append("kani::assume(%s);" % " && ".join(pre))
    b.append("f.solve();")
    b.append("let v = f.out();")
    b.append(extract(t, ""))
    b.append("assert!(%s, \"VP:wrong-shape\");" % shape_ok)
    b.append("if rows * cols == %d { assert!(%s, \"VP:wrong-element\"); }" % (len(want), " && ".join(eq_expr(t, "rd(%d)" % k, w) for k, w in enumerate(want))))
    b.append("{ let s_ = sc.borrow(); assert!(%s, \"VP:source-modified\"); }" % " && ".join(eq_expr(t, "s_[%d]" % q, "src[%d]" % q) for q in range(N)))
    b.append("f.solve(); let v2 = f.out();")
    b.append("kani::cover!(true, \"VP:reached\");")
    b.append("forget(v); forget(v2); forget(f); forget(out); forget(sc);")
    tag = ("c" + mask_txt(m1)) if m1 is not None else ("ix" if K == 2 else "ix%d" % K)
    h = H("c03_l1_%s_%s_%s%dx%d_%s" % (fam.lower(), t.lower(), sform.lower(), R, C, tag), "    " + "\n    ".join(b), WHERE, domain="accept",
          key="L1/Access%s/%s/%s/%s" % (fam, t, sform, tag),
          desc="Access%s<%s> on a symbolic %dx%d %s, output allocated as the dispatch arm allocates it, %s: documented result shape, every element is the "
               "one the 1-based column-major model selects (repeated indices allowed), source unchanged" % (fam, t, R, C, sform, "concrete column mask " + mask_txt(m1) if m1 is not None else "symbolic index vectors of length 2"),
          functions=["Access%s::solve/out (src/interpreter/src/stdlib/access/matrix.rs: struct macro + kernel macro)" % fam],
          bounds="source %dx%d, all element values; index vectors of length %d, all in-range values" % (R, C, K), unwind=max(N, K) + 2, tier=tier, group="L1-ix")
    h.slice = slice_for(t)
    return h


def plan(tier, seed):
    hs = []
    t = "f64"
    # 1-D forms over every storage form
    for sform, shape in (("RD", (1, 3)), ("VD", (3, 1)), ("MD", (2, 2))):
        N = shape[0] * shape[1]
        q = "quick" if sform == ["RD", "VD", "MD"][seed % 3] else "thorough"
        hs.append(gen(t, sform, shape, ("S",), (0,), "accept", "quick"))
        hs.append(gen(t, sform, shape, ("S",), (0,), "reject", "quick"))
        hs.append(gen(t, sform, shape, ("V",), (2,), "accept", q))
        hs.append(gen(t, sform, shape, ("V",), (1,), "accept", "thorough"))
        hs.append(gen(t, sform, shape, ("V",), (2,), "reject", q))
        hs.append(gen(t, sform, shape, ("B",), (N,), "accept", q))
        hs.append(gen(t, sform, shape, ("B",), (N + 1,), "reject", q))
        hs.append(gen(t, sform, shape, ("B",), (N - 1,), "reject", "thorough"))
        if N <= MAXSEL:
            hs.append(gen(t, sform, shape, ("A",), (0,), "accept", q))
    # 2-D forms over a 2x3 matrix
    shape = (2, 3)
    two = [(("S", "S"), (0, 0)), (("A", "S"), (0, 0)), (("S", "A"), (0, 0)), (("V", "V"), (2, 2)), (("V", "B"), (2, 3)), (("B", "V"), (2, 2)),
           (("B", "B"), (2, 3)), (("A", "V"), (0, 2)), (("A", "B"), (0, 3)), (("V", "A"), (2, 0)), (("B", "A"), (2, 0)), (("V", "S"), (2, 0)),
           (("B", "S"), (2, 0)), (("S", "V"), (0, 2)), (("S", "B"), (0, 3))]
    for k, (forms, lens) in enumerate(two):
        q = "quick" if (forms == ("S", "S") or k % 5 == seed % 5) else "thorough"
        # the slice forms x[i, a..b] / x[a..b, j] / x[a..b, c..d] are the ones with offset arithmetic: always in quick
        qa = "quick" if forms in (("S", "V"), ("V", "S"), ("V", "V")) else q
        hs.append(gen(t, "MD", shape, forms, lens, "accept", qa))
        if forms != ("A", "A"):
            hs.append(gen(t, "MD", shape, forms, lens, "reject", q))
        # masks of the wrong length are the interesting reject cases
        if "B" in forms:
            l2 = tuple((n + 1) if f == "B" else n for f, n in zip(forms, lens))
            hs.append(gen(t, "MD", shape, forms, l2, "reject", q))
    # a second element kind for the scalar forms (dispatch is by kind)
    for sform, shape in (("RD", (1, 3)), ("MD", (2, 2))):
        hs.append(gen("u8", sform, shape, ("S",), (0,), "accept", "thorough"))
        hs.append(gen("u8", sform, shape, ("V",), (2,), "accept", "thorough"))
    # accepted mask reads with CONCRETE masks (every non-empty mask of the dimension's length), elements symbolic
    import itertools
    kq = 0
    for sform, shape in (("RD", (1, 3)), ("VD", (3, 1)), ("MD", (2, 2))):
        N = shape[0] * shape[1]
        for bits in itertools.product((True, False), repeat=N):
            if not any(bits) or sum(bits) > MAXSEL:
                continue
            kq += 1
            hs.append(gen(t, sform, shape, ("K",), (bits,), "accept", "quick" if kq % 6 == seed % 6 else "thorough"))
    for forms, lens in ((("K", "S"), ((True, False), 0)), (("K", "S"), ((False, True), 0)), (("K", "S"), ((True, True), 0)),
                        (("S", "K"), (0, (True, False, True))), (("S", "K"), (0, (False, True, False))), (("S", "K"), (0, (True, True, True))),
                        (("A", "K"), (0, (True, False, True))), (("A", "K"), (0, (False, True, True))), (("K", "A"), ((False, True), 0)), (("K", "A"), ((True, True), 0)),
                        (("K", "K"), ((True, True), (True, False, True))), (("K", "K"), ((False, True), (False, True, True))),
                        (("V", "K"), (2, (True, False, True))), (("K", "V"), ((True, True), 2)), (("K", "V"), ((False, True), 2))):
        kq += 1
        hs.append(gen(t, "MD", (2, 3), forms, lens, "accept", "quick" if kq % 6 == seed % 6 else "thorough"))
    # L1 mask reads (concrete masks, symbolic elements)
    kq = 0
    T_, F_ = True, False
    for sform, shape in (("RD", (1, 3)), ("VD", (3, 1)), ("MD", (2, 2))):
        N = shape[0] * shape[1]
        for bits in itertools.product((True, False), repeat=N):
            if not any(bits):
                continue
            kq += 1
            hs.append(gen_l1_mask(t, "1DVDb", sform, shape, bits, None, "quick" if kq % 5 == seed % 5 else "thorough"))
    for m0 in ((T_, F_, T_), (F_, T_, T_), (T_, T_, T_), (F_, F_, T_), (T_, T_, F_)):
        kq += 1
        hs.append(gen_l1_mask(t, "2DVDbA", "MD", (3, 2), m0, None, "quick" if m0 in ((T_, F_, T_), (F_, T_, T_)) else "thorough"))
        hs.append(gen_l1_mask(t, "2DVDbS", "MD", (3, 2), m0, None, "quick" if kq % 3 == seed % 3 else "thorough"))
        hs.append(gen_l1_mask(t, "2DSVDb", "MD", (2, 3), None, m0, "quick" if kq % 3 == (seed + 1) % 3 else "thorough"))
    for m0, m1 in (((T_, T_), (T_, F_, T_)), ((F_, T_), (F_, T_, T_)), ((T_, F_), (F_, F_, T_)), ((T_, T_), (F_, T_, F_)), ((T_, T_), (T_, T_, T_))):
        kq += 1
        hs.append(gen_l1_mask(t, "2DRRVBB", "MD", (2, 3), m0, m1, "quick" if kq % 2 == seed % 2 else "thorough"))
        hs.append(gen_l1_mask(t, "2DRRVUB", "MD", (2, 3), None, m1, "quick" if kq % 2 != seed % 2 else "thorough"))
    for m0 in ((T_, F_, T_), (F_, T_, F_), (T_, T_, T_)):
        kq += 1
        hs.append(gen_l1_mask(t, "2DRRVBU", "MD", (3, 2), m0, None, "quick" if kq % 2 == seed % 2 else "thorough"))
    for sform, shape in (("RD", (1, 3)), ("VD", (3, 1)), ("MD", (2, 2))):
        hs.append(gen_l1_ix(t, "1DVD", sform, shape, None, "quick" if sform == ["RD", "VD", "MD"][(seed + 1) % 3] else "thorough"))
        hs.append(gen_l1_ix("u8", "1DVD", sform, shape, None, "quick" if sform == "VD" else "thorough", K=3))
    for fam in ("2DVDA", "2DVDS", "2DSVD", "2DRRVUU", "2DARV"):
        hs.append(gen_l1_ix(t, fam, "MD", (2, 3), None, "quick"))
        hs.append(gen_l1_ix("u8", fam, "MD", (3, 2), None, "thorough"))
        # an entry that addresses nothing (0, beyond the dimension) must stop solve(): per-dimension bounds, not "offset inside the storage"
        hr = gen_l1_ix("u8", fam, "MD", (2, 3), None, "quick" if fam in ("2DRRVUU", "2DVDA", "2DARV") else "thorough", K=2, domain="reject")
        if hr:
            hs.append(hr)
        # index vectors of three entries (an interior): 3x3 source so that every dimension has three positions
        hs.append(gen_l1_ix("u8", fam, "MD", (3, 3), None, "quick" if fam in ("2DARV", "2DVDA", "2DSVD") else "thorough", K=3))
    for m1 in ((T_, F_, T_), (F_, T_, F_), (T_, T_, T_), (F_, T_, T_)):
        hs.append(gen_l1_ix(t, "2DARVB", "MD", (2, 3), m1, "quick" if m1 in ((T_, F_, T_), (F_, T_, F_)) else "thorough"))
    hs = [h for h in hs if h is not None]
    for h in hs:
        forms_ = h.key.split("/")[2]
        two_d = h.key.split("/")[0] in set(DISPATCH_2D.values())
        if h.name == "c03_f64_md2x3_v2_v2_accept":
            h.tier = "off"
            h.off_reason = "x[[i..],[j..]] with two index vectors: out of 9 GB in the propositional reduction (measured 2026-09-24)"
        if "K" in forms_ and not h.name.startswith("c03_l1_"):
            h.tier = "off"
            h.off_reason = ("dispatch-level mask read with a CONCRETE mask: still out of 9 GB - the mask bits reach the kernel through a pointer "
                            "chain inside a nested enum payload (Value::MatrixBool(Matrix::DVector(rc))), which CBMC does not constant-fold, so the "
                            "output is still resized to a symbolic length (measured 2026-09-24); the kernels are decided at L1 instead (c03_l1_*)")
        if "B" in forms_ and (h.domain == "accept" or two_d):
            h.tier = "off"
            h.off_reason = ("logical-mask read whose result length is the (symbolic) number of true bits: CBMC ran out of 9 GB in the "
                            "propositional reduction / no verdict in 900 s (measured 2026-09-24)")
    src = read_repo("src/interpreter/src/stdlib/access/matrix.rs")
    prelude, extracted = "", {}
    for fx in sorted(set(list(DISPATCH_1D.values()) + list(DISPATCH_2D.values()))):
        t_, h_ = extract_dispatch_fn(src, fx, "src/interpreter/src/stdlib/access/matrix.rs")
        prelude += t_
        extracted[fx] = h_
    return {
        "harnesses": hs,
        "incrate_prelude": {WHERE: prelude},
        "extracted": extracted,
        "explanation": "Kani/CBMC over the real access dispatch functions (impl_access_*_fxn / matrix_access_*_fxn) and the Access* kernels they "
                       "build, in the harness copy of mech-interpreter under a per-kind feature slice, with kissat; source elements, index "
                       "values, index vectors and mask bits symbolic; plus struct-level (L1) harnesses for every Access1D*/Access2D* family built as its "
                       "dispatch arm builds it (index vectors symbolic, masks concrete), against the 1-based column-major reference model",
        "bounds": "sources 1x3, 3x1, 2x2, 2x3; index vectors of length 2, masks of length dim-1/dim/dim+1, at most %d selected positions "
                  "per dimension; element kinds f64 (u8 for scalar/vector forms, thorough)" % MAXSEL,
        "outside": ["logical-mask reads with a SYMBOLIC mask that are accepted through the dispatch functions: no verdict (result length = symbolic number of "
                    "true bits; see excluded_no_verdict).  Accepted mask reads are decided at struct level (L1/Access*: 1-D and every 2-D mask form) for "
                    "CONCRETE masks with symbolic source elements; the rejection of 1-D masks of the wrong length is decided at dispatch level", "subscript(): syntax -> index Values (as_index conversions, range evaluation)", "the `Vec<Value>` parameter of the dispatch functions: their bodies are copied verbatim with `ixes: &[Value]` (see extract_dispatch_fn)", "sources larger than 2x3",
                    "swizzle / dot access / tables / maps / tuples", "fixed-size storage forms", "the NativeFunctionCompiler wrappers"],
        "caps": {"quick_timeout": 900, "thorough_timeout": 2400, "heavy_jobs": 6, "heavy_rss_gb": 9},
    }
