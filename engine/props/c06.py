"""C06 - compiled bytecode computes what the interpreter computed (narrow).

Per generated function struct F (operator kernels of C01): build F over symbolic operands, solve() it (the interpreter's
result), run F's own `MechFunctionCompiler::compile` into a fresh CompileCtx, then do by hand what Interpreter::run_program
does with the emitted instructions: decode the constants (ParsedProgram::decode_const_entries), load them into registers
(ConstLoad), rebuild the function with `<F as MechFunctionFactory>::new(FunctionArgs::Binary(out, lhs, rhs))` from the
registers named by the BinOp instruction, solve() and compare with the interpreter's result.  A swapped register in
compile_binop!/compile_unop!, a swapped argument in `new`, or a constant that does not survive encoding is a counterexample.
The constant codecs and the container round trip are decided in C07 (const-roundtrip/*, roundtrip/*).
"""
from ..model import H
from .common import *
from . import c01

REPLAY = '''
  use std::collections::{HashMap, HashSet};
  pub fn vp_consts(ctx: &CompileCtx) -> Vec<Value> {
    let entries: Vec<ParsedConstEntry> = ctx.const_entries.iter().map(|c| ParsedConstEntry { type_id: c.type_id, enc: c.enc as u8, align: c.align, flags: c.flags, reserved: 0, offset: c.offset, length: c.length }).collect();
    let mut types = TypeSection::new(); types.entries = ctx.types.entries.clone();
    let header = ByteCodeHeader { magic: *b"MECH", version: 1, mech_ver: 0, flags: 0, reg_count: ctx.next_reg, instr_count: 0, feature_count: 0, feature_off: 0, types_count: 0, types_off: 0,
      const_count: entries.len() as u32, const_tbl_off: 0, const_tbl_len: 0, const_blob_off: 0, const_blob_len: 0, symbols_len: 0, symbols_off: 0, instr_off: 0, instr_len: 0, dict_off: 0, dict_len: 0, reserved: 0 };
    let p = ParsedProgram { header, features: Vec::new(), types, const_entries: entries, const_blob: ctx.const_blob.clone(), instr_bytes: Vec::new(),
      symbols: HashMap::new(), mutable_symbols: HashSet::new(), instrs: Vec::new(), dictionary: HashMap::new() };
    let r = p.decode_const_entries();
    forget(p);
    match r { Ok(v) => v, Err(e) => { forget(e); assert!(false, "VP:emitted-constant-rejected"); Vec::new() } }
  }
'''


def gen_bin(lib, t, tier):
    crate, relp, fxn, arity, cat, feat = c01.OPS[lib]
    e, pre, ot = c01.oracle(lib, t, "a", "b")
    sname = c01.struct_name(lib, "S", "S", t, cat)
    ov = TY_VARIANT[ot]
    b = [sym_stmt(t, "a"), sym_stmt(t, "b")]
    if pre:
        b.append("kani::assume(%s);" % pre)
    b += ["let f = %s { lhs: Ref::new(a), rhs: Ref::new(b), out: Ref::new(%s) };" % (sname, default_of(ot)),
          "f.solve();", "let want: %s = f.out.borrow().clone();" % ot,
          "let mut ctx = CompileCtx::new();",
          "let r = f.compile(&mut ctx);", "assert!(r.is_ok(), \"VP:compile-failed\");",
          "let consts = vp_consts(&ctx);",
          "let mut regs: Vec<Value> = vec![Value::Empty; ctx.next_reg as usize];",
          "let mut ran = false;",
          "let mut k = 0; while k < ctx.instrs.len() {",
          "  match &ctx.instrs[k] {",
          "    EncodedInstr::ConstLoad { dst, const_id } => { regs[*dst as usize] = consts[*const_id as usize].clone(); }",
          "    EncodedInstr::BinOp { fxn_id, dst, lhs, rhs } => {",
          "      let g = <%s as MechFunctionFactory>::new(FunctionArgs::Binary(regs[*dst as usize].clone(), regs[*lhs as usize].clone(), regs[*rhs as usize].clone()));" % sname,
          "      match g { Ok(g) => { g.solve(); let v = g.out(); match &v { Value::%s(o) => { let got = o.borrow().clone(); assert!(%s, \"VP:bytecode-result-differs-from-interpreter\"); }, _ => { assert!(false, \"VP:bytecode-result-kind-differs\"); } } ran = true; forget(v); forget(g); },"
          % (ov, eq_expr(ot, "got", "want")),
          "        Err(e) => { forget(e); assert!(false, \"VP:bytecode-function-rebuild-failed\"); } }",
          "    }",
          "    _ => { assert!(false, \"VP:unexpected-instruction\"); }",
          "  }", "  k += 1;", "}",
          "assert!(ran, \"VP:no-operation-emitted\");", "kani::cover!(true, \"VP:reached\");",
          "forget(regs); forget(consts); forget(ctx); forget(f);"]
    h = H("c06_regs_%s_%s" % (lib.lower(), t.lower()), "    " + "\n    ".join(b), (crate, relp), domain="accept", key="register-order/%s<%s>" % (lib, t),
          desc="%s on two symbolic %s scalars: the instruction sequence its compile() emits, replayed the way run_program does, gives the interpreter's result"
               % (c01.SYMBOL[lib], t),
          functions=["<%s as MechFunctionCompiler>::compile (compile_binop! in src/core/src/stdlib.rs)" % sname, "<%s as MechFunctionFactory>::new" % sname,
                     "CompileConst for %s" % t, "ParsedProgram::decode_const_entries"],
          bounds="scalar operands, all values", unwind=8, tier=tier, solver="kissat", assumptions=[pre] if pre else [])
    h.slice = c01.slice_for(lib, t) + ",program"
    h.heavy = True
    h.stub_loc = True
    # CompileCtx keeps registers, types and features in HashMap/HashSet: all-colliding hasher stub (see c14.HASHER_STUBS)
    from .c14 import STUB_RS, STUB_DH
    h.attrs = [STUB_RS] + STUB_DH
    h.rec_limit = 1
    return h


def plan(tier, seed):
    hs = []
    cands = [("Sub", "i16"), ("Div", "f64"), ("GT", "i16"), ("LT", "f64"), ("Mod", "u8"), ("Pow", "u8"), ("Sub", "u8")]
    for k, (lib, t) in enumerate(cands):
        hs.append(gen_bin(lib, t, "quick" if k in (seed % 3, 2 + seed % 2) else "thorough"))
    pre = {}
    for h in hs:
        from .c14 import HASHER_STUBS
        pre[h.where] = HASHER_STUBS + REPLAY
    return {
        "harnesses": hs,
        "incrate_prelude": pre,
        "explanation": "Kani/CBMC over F::solve, F's MechFunctionCompiler::compile (compile_binop!), the constant encoders/decoders and F's "
                       "MechFunctionFactory::new for non-commutative operator structs, with the operands symbolic: replaying the emitted "
                       "instructions reproduces the interpreter's result",
        "bounds": "one instruction (+ its constant loads), scalar operands, all values; operators Sub, Div, Mod, Pow, GT, LT",
        "outside": ["Interpreter::compile over a real plan and run_program's lookup of factories by hash_str(name) in the link-time registry "
                    "(the struct is named directly here)", "matrix operands", "`for every program the interpreter evaluates`",
                    "symbol table / dictionary sections (see C07 roundtrip/symbols)"],
        "caps": {"quick_timeout": 900, "thorough_timeout": 1800, "heavy_jobs": 6, "heavy_rss_gb": 9},
    }
