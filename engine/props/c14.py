"""C14 - sets: the solver-decidable core is the Hash/Eq contract that `IndexSet<Value>` relies on.

A set holds no two equal elements iff equal values hash equally (IndexSet only compares elements that collide).  For two
symbolic values a, b of one variant:  a == b  =>  H(a) == H(b), where H is a deterministic byte-recording `Hasher`
defined in the harness.  Plus: hashing terminates without panic for every variant a set literal can contain, and the
bookkeeping of `MechSet::from_vec` (num_elements == number of distinct elements, kind == element kind).
"""
import os
from ..model import H
from .common import *

WHERE = ("core", "src/value.rs")

# The behaviour of IndexSet (membership, size, iteration order) does not depend on the hash values as long as equal elements
# hash equally - and that is what the hash-eq harnesses decide.  For the harnesses that run IndexSet itself the std
# DefaultHasher is therefore replaced by the degenerate hasher "every element hashes to 0": all elements collide, every
# lookup falls through to `Value == Value`, and SipHash rounds over symbolic bytes (and the symbolic bucket indices they
# produce) stay out of the query.
HASHER_STUBS = '''
  pub fn vp_random_state() -> ::std::hash::RandomState { unsafe { ::std::mem::transmute::<[u64; 2], ::std::hash::RandomState>([0x0123_4567_89ab_cdefu64, 0x0fed_cba9_8765_4321u64]) } }
  pub fn vp_dh_write(_h: &mut ::std::hash::DefaultHasher, _b: &[u8]) {}
  pub fn vp_dh_write_str(_h: &mut ::std::hash::DefaultHasher, _s: &str) {}
  pub fn vp_dh_finish(_h: &::std::hash::DefaultHasher) -> u64 { 0 }
'''
STUB_RS = "#[kani::stub(::std::hash::RandomState::new, vp_random_state)]"
STUB_DH = ["#[kani::stub(<::std::hash::DefaultHasher as ::std::hash::Hasher>::write, vp_dh_write)]",
           "#[kani::stub(<::std::hash::DefaultHasher as ::std::hash::Hasher>::write_str, vp_dh_write_str)]",
           "#[kani::stub(<::std::hash::DefaultHasher as ::std::hash::Hasher>::finish, vp_dh_finish)]"]

PRELUDE = '''
  // deterministic, injective-on-short-streams hasher: records the first 32 bytes and the stream length
  pub struct VH { pub w: [u64; 4], pub n: usize }
  impl VH { pub fn new() -> Self { VH { w: [0u64; 4], n: 0 } } }
  impl ::std::hash::Hasher for VH {
    fn finish(&self) -> u64 { 0 }
    fn write(&mut self, bytes: &[u8]) {
      let mut i = 0;
      while i < bytes.len() { if self.n < 32 { self.w[self.n / 8] |= (bytes[i] as u64) << ((self.n % 8) * 8); } self.n += 1; i += 1; }
    }
  }
  pub fn vh_same(a: &VH, b: &VH) -> bool { a.n == b.n && a.w[0] == b.w[0] && a.w[1] == b.w[1] && a.w[2] == b.w[2] && a.w[3] == b.w[3] }
  pub fn vh_of(v: &Value) -> VH { let mut h = VH::new(); ::std::hash::Hash::hash(v, &mut h); h }
''' + HASHER_STUBS


def scalar_pair(t, name):
    return sym_stmt(t, name + "a") + "\n    " + sym_stmt(t, name + "b")


def gen_scalar(t, tier):
    var = TY_VARIANT[t]
    b = [sym_stmt(t, "a"), sym_stmt(t, "b")]
    b.append("let va = Value::%s(Ref::new(a.clone())); let vb = Value::%s(Ref::new(b.clone()));" % (var, var))
    b.append("let equal = va == vb;")
    b.append("kani::cover!(equal, \"VP:reached-equal\");")
    b.append("kani::cover!(!equal, \"VP:reached-distinct\");")
    b.append("let ha = vh_of(&va); let hb = vh_of(&vb);")
    b.append("if equal { assert!(vh_same(&ha, &hb), \"VP:equal-values-hash-differently\"); }")
    b.append("forget(va); forget(vb);")
    return H("c14_hash_eq_%s" % t.lower(), "    " + "\n    ".join(b), WHERE, domain="accept", key="hash-eq/%s" % var,
             desc="two symbolic %s values: a == b implies identical hash byte stream" % t,
             functions=["<Value as Hash>::hash (src/core/src/value.rs)", "<Value as PartialEq>::eq (derived)"],
             bounds="all bit patterns of both values" + ("; strings of one byte" if t == "String" else ""), unwind=18, tier=tier)


def gen_tuple(t1, t2, tier):
    v1, v2 = TY_VARIANT[t1], TY_VARIANT[t2]
    b = [sym_stmt(t1, "a1"), sym_stmt(t2, "a2"), sym_stmt(t1, "b1"), sym_stmt(t2, "b2")]
    b.append("let ta = Value::Tuple(Ref::new(MechTuple { elements: vec![Box::new(Value::%s(Ref::new(a1))), Box::new(Value::%s(Ref::new(a2)))] }));" % (v1, v2))
    b.append("let tb = Value::Tuple(Ref::new(MechTuple { elements: vec![Box::new(Value::%s(Ref::new(b1))), Box::new(Value::%s(Ref::new(b2)))] }));" % (v1, v2))
    b.append("let equal = ta == tb;")
    b.append("kani::cover!(equal, \"VP:reached-equal\");")
    b.append("let ha = vh_of(&ta); let hb = vh_of(&tb);")
    b.append("if equal { assert!(vh_same(&ha, &hb), \"VP:equal-values-hash-differently\"); }")
    b.append("forget(ta); forget(tb);")
    h = H("c14_hash_eq_tuple_%s_%s" % (t1.lower(), t2.lower()), "    " + "\n    ".join(b), WHERE, domain="accept",
             key="hash-eq/Tuple(%s,%s)" % (v1, v2), desc="two symbolic (%s,%s) tuples: equal implies identical hash stream" % (t1, t2),
             functions=["<Value as Hash>::hash", "<MechTuple as Hash>::hash (src/core/src/structures/tuple.rs)", "derived PartialEq"],
             bounds="all values of the four components", unwind=18, tier=tier)
    h.rec_limit = 2
    return h


def gen_matrix(t, tier):
    var = TY_VARIANT[t]
    b = [sym_array(t, "a", 2), sym_array(t, "b", 2)]
    b.append("let ma = Value::Matrix%s(Matrix::RowDVector(Ref::new(RowDVector::from_vec(a.to_vec()))));" % var)
    b.append("let mb = Value::Matrix%s(Matrix::RowDVector(Ref::new(RowDVector::from_vec(b.to_vec()))));" % var)
    b.append("let equal = ma == mb;")
    b.append("kani::cover!(equal, \"VP:reached-equal\");")
    b.append("let ha = vh_of(&ma); let hb = vh_of(&mb);")
    b.append("if equal { assert!(vh_same(&ha, &hb), \"VP:equal-values-hash-differently\"); }")
    b.append("forget(ma); forget(mb);")
    return H("c14_hash_eq_matrix_%s" % t.lower(), "    " + "\n    ".join(b), WHERE, domain="accept", key="hash-eq/Matrix%s" % var,
             desc="two symbolic 1x2 %s row vectors: equal implies identical hash stream (a set of matrices must not hold duplicates)" % t,
             functions=["<Value as Hash>::hash", "<Matrix<T> as Hash>::hash (src/core/src/structures/matrix.rs)"],
             bounds="1x2, all element values", unwind=18, tier=tier)


def gen_set_order(tier):
    # two sets holding the same two distinct elements, inserted in opposite orders, are equal; their hashes must agree
    b = ["let x: u8 = kani::any(); let y: u8 = kani::any();", "kani::assume(x != y);"]
    b.append("let mut s1 = indexmap::IndexSet::new(); s1.insert(Value::U8(Ref::new(x))); s1.insert(Value::U8(Ref::new(y)));")
    b.append("let mut s2 = indexmap::IndexSet::new(); s2.insert(Value::U8(Ref::new(y))); s2.insert(Value::U8(Ref::new(x)));")
    b.append("let a = Value::Set(Ref::new(MechSet { kind: ValueKind::U8, num_elements: 2, set: s1 })); let c = Value::Set(Ref::new(MechSet { kind: ValueKind::U8, num_elements: 2, set: s2 }));")
    b.append("let equal = a == c;")
    b.append("kani::cover!(equal, \"VP:reached-equal\");")
    b.append("let ha = vh_of(&a); let hc = vh_of(&c);")
    b.append("if equal { assert!(vh_same(&ha, &hc), \"VP:equal-values-hash-differently\"); }")
    b.append("forget(a); forget(c);")
    h = H("c14_hash_eq_set_order", "    " + "\n    ".join(b), WHERE, domain="accept", key="hash-eq/Set(order)",
             desc="{x,y} and {y,x} (symbolic distinct u8): equal sets must hash equally, otherwise a set of sets holds duplicates",
             functions=["<MechSet as Hash>::hash (src/core/src/structures/set.rs)", "derived PartialEq of MechSet (IndexSet equality)",
                        "MechSet::from_set"],
             bounds="two elements, all u8 values; IndexSet as compiled under the all-colliding hasher stub", unwind=18, tier=tier)
    h.attrs = [STUB_RS] + STUB_DH
    h.rec_limit = 2
    h.tier = "off"
    h.off_reason = ("IndexSet construction inside mech-core (default features) + seahash per element: no verdict in 600 s with hashbrown, and no "
                    "verdict in 600 s / 6.5 GB with the IndexSet list model (measured 2026-09-25)")
    return h


def gen_from_vec(tier):
    b = ["let x: u8 = kani::any(); let y: u8 = kani::any(); let z: u8 = kani::any();"]
    b.append("let s = MechSet::from_vec(vec![Value::U8(Ref::new(x)), Value::U8(Ref::new(y)), Value::U8(Ref::new(z))]);")
    b.append("let distinct: usize = 1 + (if y != x { 1 } else { 0 }) + (if z != x && z != y { 1 } else { 0 });")
    b.append("assert!(s.set.len() == distinct, \"VP:set-size-differs-from-distinct-count\");")
    b.append("assert!(s.num_elements == s.set.len(), \"VP:num-elements-wrong\");")
    b.append("assert!(s.kind == ValueKind::U8, \"VP:set-kind-wrong\");")
    b.append("kani::cover!(distinct == 2, \"VP:reached-duplicate\");")
    b.append("forget(s);")
    h = H("c14_from_vec_u8", "    " + "\n    ".join(b), WHERE, domain="accept", key="from_vec/U8",
             desc="MechSet::from_vec on three symbolic u8: size = number of distinct values, num_elements = size, kind = u8",
             functions=["MechSet::from_vec (src/core/src/structures/set.rs)", "IndexSet::insert as compiled"],
             bounds="3 elements, all u8 values", unwind=18, tier=tier)
    h.attrs = [STUB_RS] + STUB_DH
    h.rec_limit = 1
    h.tier = "off"
    h.off_reason = ("IndexSet construction inside mech-core (default features): no verdict in 600 s with hashbrown (also under the all-colliding hasher "
                    "stub), and no verdict in 600 s / 7.6 GB with the IndexSet list model (measured 2026-09-25)")
    return h


def gen_total(name, expr, what, tier, unwind=8):
    b = ["let v = %s;" % expr, "let h = vh_of(&v);", "kani::cover!(true, \"VP:reached\");", "forget(v);"]
    h = H("c14_hash_total_%s" % name, "    " + "\n    ".join(b), WHERE, domain="accept", key="hash-total/%s" % name,
          desc="hashing %s terminates and does not panic (a set literal may contain it)" % what,
          functions=["<Value as Hash>::hash"], bounds="recursion/loop unwinding %d" % unwind, unwind=unwind, tier=tier)
    h.nonterm_is_violation = True
    return h


# ---------------------------------------------------------------------------------------------- set algebra (machines/set)
SETOPS = {
    # name: (file, struct, kind)  kind: rel (bool result) | op (set result) | mem
    "subset": ("src/relations/subset.rs", "SetSubsetFxn", "rel"),
    "superset": ("src/relations/superset.rs", "SetSupersetFxn", "rel"),
    "proper_subset": ("src/relations/proper_subset.rs", "SetProperSubsetFxn", "rel"),
    "proper_superset": ("src/relations/proper_superset.rs", "SetProperSupersetFxn", "rel"),
    "disjoint": ("src/relations/disjoint.rs", "SetDisjointFxn", "rel"),
    "equals": ("src/relations/equals.rs", "SetEqualsFxn", "rel"),
    "not_equals": ("src/relations/not_equals.rs", "SetNotEqualsFxn", "rel"),
    "not_element_of": ("src/membership/not_element_of.rs", "SetNotElementOfFxn", "mem"),
    "union": ("src/operations/union.rs", "SetUnionFxn", "op"),
    "intersection": ("src/operations/intersection.rs", "SetIntersectionFxn", "op"),
    "difference": ("src/operations/difference.rs", "SetDifferenceFxn", "op"),
    "symmetric_difference": ("src/operations/symmetric_difference.rs", "SetSymDifferenceFxn", "op"),
    "element_of": ("src/membership/element_of.rs", "SetElementOfFxn", "mem"),
}
# feature slice of mech-set / mech-core for the set-algebra harnesses: the Value enum keeps the u8, bool, set, tuple and the
# always-present variants only, so that a heap-resident element whose tag symbolic execution cannot fold costs a handful of arms
SET_SLICE = "u8,bool,string,matrixd,vectord,row_vectord,set,vp_core_set,tuple,functions,compiler,operations_default,relations_default,membership_default,modify_default,setdata_default"
SET_PRELUDE = HASHER_STUBS + '''
  // an arbitrary valid set state of known size: the elements are pairwise distinct (assumed by the caller), kind and num_elements are
  // what MechSet::from_vec / from_set would record (decided separately by c14_from_vec_u8)
  pub fn vp_set(xs: &[u8]) -> MechSet { let mut v = Vec::new(); let mut i = 0; while i < xs.len() { v.push(Value::U8(Ref::new(xs[i]))); i += 1; }
    let n = xs.len(); MechSet { kind: if n > 0 { ValueKind::U8 } else { ValueKind::Empty }, num_elements: n, set: indexmap::IndexSet::vp_from_distinct_vec(v) } }
  // Every Value in the set-algebra harnesses is a Value::U8 element.  After a data-dependent filter (`a.difference(&b)`, ...) the
  // element pointer is a solver-level choice and CBMC's symbolic execution no longer knows the enum tag: the derived
  // `Value::clone` is then explored for all ~60 variants (ValueKind::clone recursion included): no verdict.  The stub is the U8 arm
  // of the derived clone; any other variant reaching it is reported (panic), not assumed away.
  pub fn vp_value_clone_u8(v: &Value) -> Value { match v { Value::U8(r) => Value::U8(r.clone()), _ => panic!("VP:model-non-u8-value-cloned") } }
  // same reason, same shape: the U8 arm of the derived PartialEq (Ref<u8> == Ref<u8> compares the cell contents)
  pub fn vp_value_eq_u8(a: &Value, b: &Value) -> bool { match (a, b) { (Value::U8(x), Value::U8(y)) => *x.borrow() == *y.borrow(), _ => panic!("VP:model-non-u8-value-compared") } }
  pub fn vp_has(s: &MechSet, x: u8) -> bool { let mut found = false; for v in s.set.iter() { if let Value::U8(c) = v { if *c.borrow() == x { found = true; } } } found }
'''


def rel_outcomes(op, na, nb):
    """truth values the mathematical definition takes over all pairs of sets of na / nb distinct elements of {0,1,2,3}"""
    import itertools
    out = set()
    for A in itertools.combinations(range(4), na):
        for B in itertools.combinations(range(4), nb):
            A_, B_ = set(A), set(B)
            out.add({"subset": A_ <= B_, "superset": A_ >= B_, "proper_subset": A_ < B_, "proper_superset": A_ > B_,
                     "disjoint": not (A_ & B_), "equals": A_ == B_, "not_equals": A_ != B_}[op])
    return out


def member(x, xs):
    return "(" + " || ".join("%s == %s" % (x, y) for y in xs) + ")" if xs else "false"


def gen_setop(op, na, nb, tier):
    relp, struct, kind = SETOPS[op]
    A = ["a%d" % i for i in range(na)]
    B = ["b%d" % i for i in range(nb)]
    b = []
    for v in A + B:
        b.append("let %s: u8 = kani::any();" % v)
    # all values from a tiny universe so that coincidences (a_i == b_j, duplicates) are common cases, not needles
    if A + B:
        b.append("kani::assume(%s);" % " && ".join("%s < 4" % v for v in A + B))
    for L in (A, B):
        for i in range(len(L)):
            for j in range(i + 1, len(L)):
                b.append("kani::assume(%s != %s);" % (L[i], L[j]))
    b.append("let sa = Ref::new(vp_set(&[%s])); let sb = Ref::new(vp_set(&[%s]));" % (", ".join(A), ", ".join(B)))
    if kind == "rel":
        b.append("let f = %s { lhs: sa.clone(), rhs: sb.clone(), out: Ref::new(false) };" % struct)
        b.append("f.solve();")
        sub = " && ".join(member(x, B) for x in A) if A else "true"       # A subset of B
        sup = " && ".join(member(y, A) for y in B) if B else "true"       # A superset of B
        disj = " && ".join("!" + member(x, B) for x in A) if (A and B) else "true"
        want = {"subset": sub, "superset": sup, "proper_subset": "(%s) && !(%s)" % (sub, sup), "proper_superset": "(%s) && !(%s)" % (sup, sub),
                "disjoint": disj, "equals": "(%s) && (%s)" % (sub, sup), "not_equals": "!((%s) && (%s))" % (sub, sup)}[op]
        b.append("let want: bool = %s;" % want)
        outcomes = rel_outcomes(op, na, nb)      # which truth values the definition can take for these sizes (vacuity witnesses)
        b.append(" ".join("kani::cover!(%swant, \"VP:reached-%s\");" % ("" if o else "!", "true" if o else "false") for o in sorted(outcomes)))
        b.append("assert!(*f.out.borrow() == want, \"VP:set-relation-disagrees-with-definition\");")
    elif kind == "op":
        b.append("let f = %s { lhs: sa.clone(), rhs: sb.clone(), out: Ref::new(MechSet::new(ValueKind::Empty, 0)) };" % struct)
        b.append("f.solve();")
        b.append("{ let o = f.out.borrow();")
        b.append("let mut expected_size: usize = 0;")
        for x in range(4):
            inA, inB = member(str(x), A), member(str(x), B)
            want = {"union": "(%s || %s)" % (inA, inB), "intersection": "(%s && %s)" % (inA, inB), "difference": "(%s && !%s)" % (inA, inB),
                    "symmetric_difference": "(%s != %s)" % (inA, inB)}[op]
            b.append("{ let w: bool = %s; if w { expected_size += 1; } assert!(vp_has(&o, %d) == w, \"VP:set-operation-disagrees-with-definition\"); }" % (want, x))
        b.append("assert!(o.set.len() == expected_size && o.num_elements == expected_size, \"VP:set-size-wrong\");")
        b.append("kani::cover!(expected_size >= 1, \"VP:reached\"); }" if (na or nb) else "kani::cover!(true, \"VP:reached\"); }")
    else:
        b.append("let e: u8 = kani::any(); kani::assume(e < 4);")
        b.append("let f = %s { elem: Ref::new(Value::U8(Ref::new(e))), set: sa.clone(), out: Ref::new(false) };" % struct)
        b.append("f.solve();")
        b.append("let want: bool = %s%s;" % ("!" if op == "not_element_of" else "", member("e", A)))
        b.append("kani::cover!(want, \"VP:reached-true\"); kani::cover!(!want, \"VP:reached-false\");" if na else "kani::cover!(true, \"VP:reached\");")
        b.append("assert!(*f.out.borrow() == want, \"VP:membership-disagrees-with-definition\");")
    b.append("forget(f); forget(sa); forget(sb);")
    h = H("c14_set_%s_%d_%d" % (op, na, nb), "    " + "\n    ".join(b), ("set", relp), domain="accept", key="set-algebra/%s/%d.%d" % (op, na, nb),
          desc="%s on a %d-element and a %d-element set of symbolic u8 (values 0..3, so equal elements and duplicates occur): result equals the "
               "mathematical definition evaluated on the element values" % (op.replace("_", " "), na, nb),
          functions=["%s::solve (machines/set/%s)" % (struct, relp), "MechSet::from_vec", "IndexSet::{insert,union,intersection,difference,"
                     "symmetric_difference,is_subset,is_superset,contains} as compiled", "<Value as Hash>::hash / PartialEq for U8"],
          bounds="|A| = %d, |B| = %d, element values 0..3" % (na, nb), unwind=max(na, nb, 4) + 3, tier=tier, group="set-algebra", solver="kissat")
    # no hasher stubs: under the IndexSet model (engine/models/indexset_model.rs) nothing hashes.  Value::kind() is replaced by the
    # constant ValueKind::U8: every Value in these harnesses is a Value::U8 element (kind() is only called on elements, to label
    # the result set), for which the real kind() returns exactly that
    h.stub_kind_as = "U8"
    h.slice = SET_SLICE
    if kind == "op":
        h.attrs = ["#[kani::stub(<mech_core::Value as ::std::clone::Clone>::clone, vp_value_clone_u8)]"]
    h.rec_limit = 1
    h.heavy = True
    return h


def plan(tier, seed):
    hs = []
    for t in ["u8", "i64", "f64", "bool", "String"]:
        hs.append(gen_scalar(t, "quick"))
    for t in ["u16", "u32", "u64", "u128", "i8", "i16", "i32", "i128", "f32", "C64"]:
        hs.append(gen_scalar(t, "rot"))
    hs.append(gen_scalar("R64", "thorough"))
    hs.append(gen_tuple("u8", "u8", "quick"))
    hs.append(gen_tuple("u8", "f64", "thorough"))
    hs.append(gen_matrix("u8", "quick"))
    hs.append(gen_matrix("i64", "thorough"))
    hs.append(gen_set_order("quick"))
    hs.append(gen_from_vec("quick"))
    hs.append(gen_total("empty", "Value::Empty", "the empty value `_`", "quick"))
    hs.append(gen_total("matrix_f64", "Value::MatrixF64(Matrix::RowDVector(Ref::new(RowDVector::from_vec(vec![kani::any::<f64>()]))))",
                        "a f64 matrix", "quick", unwind=18))
    hs.append(gen_total("matrix_f32", "Value::MatrixF32(Matrix::RowDVector(Ref::new(RowDVector::from_vec(vec![kani::any::<f32>()]))))",
                        "a f32 matrix", "thorough", unwind=18))
    hs.append(gen_total("index_all", "Value::IndexAll", "Value::IndexAll", "thorough"))
    if os.environ.get("VERIF_C14_PROBE"):
        probes = {
            "push": "let mut v: Vec<Value> = Vec::new(); v.push(Value::U8(Ref::new(x))); v.push(Value::U8(Ref::new(y)));",
            "lit": "let v: Vec<Value> = vec![Value::U8(Ref::new(x)), Value::U8(Ref::new(y))];",
            "cap": "let mut v: Vec<Value> = Vec::with_capacity(2); v.push(Value::U8(Ref::new(x))); v.push(Value::U8(Ref::new(y)));",
            "arr": "let v: [Option<Value>; 4] = [Some(Value::U8(Ref::new(x))), Some(Value::U8(Ref::new(y))), None, None]; let v = Box::new(v);",
        }
        for n in ("eq_ab", "eq_ba"):
            body = ["let x: u8 = kani::any(); let y: u8 = kani::any(); let c: bool = kani::any();",
                    "let mut v: Vec<Value> = Vec::with_capacity(2); v.push(Value::U8(Ref::new(x))); if c { v.push(Value::U8(Ref::new(y))); }",
                    "let a = Value::U8(Ref::new(y));",
                    "if v.len() > 1 { let e = %s; assert!(e, \"VP:probe\"); }" % ("a == v[1]" if n == "eq_ab" else "v[1] == a"),
                    "kani::cover!(true, \"VP:reached\"); forget(a); forget(v);"]
            hs.append(H("c14_probe_%s" % n, "    " + "\n    ".join(body), WHERE, domain="accept", key="probe/" + n, unwind=6, tier="quick"))
        for n, init in probes.items():
            body = ["let x: u8 = kani::any(); let y: u8 = kani::any();", init]
            if n == "arr":
                body.append("let c = v[1].as_ref().unwrap().clone();")
            else:
                body.append("let c = v[1].clone();")
            body.append("let ok = match &c { Value::U8(r) => *r.borrow() == y, _ => false };")
            body.append("assert!(ok, \"VP:probe\"); kani::cover!(true, \"VP:reached\"); forget(c); forget(v);")
            hs.append(H("c14_probe_%s" % n, "    " + "\n    ".join(body), WHERE, domain="accept", key="probe/" + n, unwind=6, tier="quick"))
    pre = {WHERE: PRELUDE}
    # Set relations and membership (machines/set): the real solve() bodies over the IndexSet model (engine/models/indexset_model.rs),
    # from arbitrary valid set states of known size.  The set-VALUED operations (union, intersection, difference, symmetric
    # difference) build a result whose length is symbolic: the unwritten slots of the result vector have no known enum tag for
    # CBMC's symbolic execution and every later `Value == Value` against them walks the whole derived PartialEq (ValueKind
    # recursion, matrix iterators): measured out of memory (10 GB) after 20 min for union 2+1.  Their generator is kept, tier off.
    sizes = [(2, 0), (0, 2), (1, 1), (2, 1), (1, 2), (2, 2), (0, 0), (3, 2), (2, 3), (3, 3)]
    quick_sizes = {(2, 2), (2, 1), (0, 2), (2, 0)}
    for n, op in enumerate(SETOPS):
        relp, struct, kind = SETOPS[op]
        pre[("set", relp)] = SET_PRELUDE
        for k, (na, nb) in enumerate(sizes):
            if kind == "mem" and nb != 0:
                continue
            if kind == "op" and max(na, nb) > 2:
                continue
            # membership: the empty set too (its element kind differs from the element's: seeded change C14-4)
            q = "quick" if ((na, nb) in quick_sizes or (kind == "mem" and na in (0, 2))) else ("rot" if max(na, nb) < 3 else "thorough")
            h = gen_setop(op, na, nb, q)
            if kind == "op":
                h.tier = "off"
                h.off_reason = ("set-valued result of symbolic length: no verdict (out of memory at 10 GB after 1250 s for union 2+1, "
                                "also under the IndexSet model, the u8 feature slice and the Value::clone stub)")
            hs.append(h)
    return {
        "harnesses": hs,
        "quick_rot_fraction": 0.3,
        "incrate_prelude": pre,
        "stubs": ["std::fmt::format -> String::new()", "indexmap::IndexSet -> Vec-backed model (cfg(kani) only, engine/models/indexset_model.rs)",
                  "Value::kind -> ValueKind::U8 in the set relation harnesses (every Value there is a Value::U8 element)"],
        "explanation": "Kani/CBMC over the real solve() of the set relation / membership functions of machines/set on arbitrary valid sets "
                       "(IndexSet model), and over the real `impl Hash for Value/MechSet/MechTuple/Matrix<T>` and the derived PartialEq: for two symbolic "
                       "values of one variant, equality implies an identical hash byte stream (recorded by a deterministic Hasher defined "
                       "in the harness); hashing is total; MechSet::from_vec bookkeeping on three symbolic elements",
        "bounds": "hash/eq: two values per query, all bit patterns; strings 1 byte; tuples of 2; matrices 1x2.  set relations "
                  "(subset, superset, proper subset/superset, disjoint, equals, not equals) and membership: sets of 0-3 distinct u8 elements "
                  "from {0,1,2,3} in every insertion order, from_vec on 3 symbolic u8",
        "outside": ["IndexSet itself: replaced by the insertion-ordered duplicate-free list model engine/models/indexset_model.rs in the "
                    "verification build (hashbrown gets no CBMC verdict); its agreement with indexmap rests on the Hash/Eq contract decided by "
                    "the hash-eq harnesses", "the set-VALUED operators (union, intersection, difference, symmetric difference, insert, "
                    "remove, powerset, cartesian product): harnesses exist (tier off) but get no verdict - a result vector of symbolic length "
                    "leaves slots without a known enum tag", "set relations on elements other than u8 scalars", "set comprehensions and the kind check of "
                    "set literals (interpreter level)", "sets with more than 3 elements"],
        "caps": {"quick_timeout": 600, "thorough_timeout": 1500},
    }
