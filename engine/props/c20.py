"""C20 - source includes (narrow): the line classifiers that decide what is an include line and what is fenced.

The functions are private to the `mech` binary crate, whose dependency closure (tokio, warp, reqwest, notify ...) is not
compiled under Kani.  The item text of `looks_like_mech_include`, `code_fence_delimiter`, `is_code_fence_close` and
`standalone_braced_content` is extracted verbatim from /repo/src/mechfs.rs on every run (brace matching; the SHA-256 of each
item goes into the evidence) into a stand-alone harness crate; they depend on `std` only.
"""
import re, hashlib
from ..model import H
from .common import *

CRATE = "x_mechfs"
WHERE = (CRATE, "src/lib.rs")
FNS = ["looks_like_mech_include", "code_fence_delimiter", "is_code_fence_close", "standalone_braced_content"]
N = 6


def extract_fn(src, name):
    m = re.search(r"^fn\s+%s\b" % re.escape(name), src, re.M)
    if not m:
        raise SystemExit("INCONCLUSIVE: function %s not found in src/mechfs.rs" % name)
    i = src.index("{", m.start())
    depth, j = 0, i
    while True:
        ch = src[j]
        if ch == "{":
            depth += 1
        elif ch == "}":
            depth -= 1
            if depth == 0:
                break
        j += 1
    return src[m.start():j + 1]


LINE = """let bytes: [u8; %d] = kani::any(); let len: usize = kani::any(); kani::assume(len <= %d);
    { let mut k = 0; while k < %d { kani::assume(bytes[k] < 128 && bytes[k] != 0); k += 1; } }
    let line: &str = ::std::str::from_utf8(&bytes[..len]).unwrap();""" % (N, N, N)


def plan(tier, seed):
    src = read_repo("src/mechfs.rs")
    items = {n: extract_fn(src, n) for n in FNS}
    hs = []
    # code_fence_delimiter: Some((m, n, j)) <=> <= 3 leading spaces, then n >= 3 equal markers m in {`, ~}; j = index after the run
    b = [LINE,
         "let mut sp = 0; while sp < len && bytes[sp] == b' ' { sp += 1; }",
         "let mut run = 0; let mk = if sp < len { bytes[sp] } else { 0 }; while sp + run < len && bytes[sp + run] == mk { run += 1; }",
         "let want = sp <= 3 && sp < len && (mk == b'`' || mk == b'~') && run >= 3;",
         "kani::cover!(want, \"VP:reached-fence\"); kani::cover!(!want, \"VP:reached-no-fence\");",
         "match code_fence_delimiter(line) {",
         "  Some((m, n, after)) => { assert!(want, \"VP:non-fence-line-classified-as-fence\"); assert!(m as u32 == mk as u32 && n == run && after == sp + run, \"VP:fence-marker-or-length-wrong\"); }",
         "  None => { assert!(!want, \"VP:fence-line-not-recognised\"); }",
         "}"]
    hs.append(H("c20_code_fence_delimiter", "    " + "\n    ".join(b), WHERE, domain="accept", key="code_fence_delimiter",
                desc="code_fence_delimiter on every ASCII line of <= %d bytes: Some((marker, run length, end)) exactly for lines with <= 3 leading "
                     "spaces followed by >= 3 equal ` or ~ markers; no panic" % N,
                functions=["code_fence_delimiter (src/mechfs.rs, extracted verbatim)"], bounds="ASCII lines, <= %d bytes" % N, unwind=N + 3, tier="quick"))
    # is_code_fence_close: same marker, run >= opening length, only blanks after
    b = [LINE, "let open_marker: u8 = kani::any(); kani::assume(open_marker == b'`' || open_marker == b'~');",
         "let min_len: usize = kani::any(); kani::assume(min_len >= 3 && min_len <= %d);" % N,
         "let mut sp = 0; while sp < len && bytes[sp] == b' ' { sp += 1; }",
         "let mut run = 0; while sp + run < len && bytes[sp + run] == open_marker { run += 1; }",
         "let mut rest_blank = true; { let mut k = sp + run; while k < len { let c = bytes[k]; if !(c == b' ' || c == b'\\t' || c == b'\\r' || c == b'\\n') { rest_blank = false; } k += 1; } }",
         "let want = sp <= 3 && run >= 3 && run >= min_len && rest_blank;",
         "kani::cover!(want, \"VP:reached-close\");",
         "let got = is_code_fence_close(line, open_marker as char, min_len);",
         "assert!(got == want, \"VP:fence-close-misclassified\");"]
    hs.append(H("c20_is_code_fence_close", "    " + "\n    ".join(b), WHERE, domain="accept", key="is_code_fence_close",
                desc="is_code_fence_close on every ASCII line of <= %d bytes, both markers, every opening length: true exactly when the line is "
                     "<= 3 spaces, a run of the same marker at least as long as the opening one, then only blanks" % N,
                functions=["is_code_fence_close", "code_fence_delimiter (src/mechfs.rs, extracted verbatim)"], bounds="ASCII lines, <= %d bytes" % N,
                unwind=N + 3, tier="quick"))
    # standalone_braced_content + looks_like_mech_include: an include line is `{` ... `.mec}` after trimming blanks
    b = [LINE,
         "{ let mut k = 0; while k < %d { kani::assume(bytes[k] >= 32 || bytes[k] == b'\\t'); k += 1; } }" % N,
         "let mut s = 0; while s < len && (bytes[s] == b' ' || bytes[s] == b'\\t') { s += 1; }",
         "let mut e = len; while e > s && (bytes[e - 1] == b' ' || bytes[e - 1] == b'\\t') { e -= 1; }",
         "let braced = e > s && bytes[s] == b'{' && bytes[e - 1] == b'}' && e - s >= 2;",
         "kani::cover!(braced, \"VP:reached-braced\");",
         "match standalone_braced_content(line) {",
         "  Some(inner) => { assert!(braced, \"VP:unbraced-line-classified-as-braced\"); assert!(inner.len() == e - s - 2, \"VP:braced-content-wrong\"); }",
         "  None => { assert!(!braced || e - s < 2, \"VP:braced-line-not-recognised\"); }",
         "}"]
    hs.append(H("c20_standalone_braced_content", "    " + "\n    ".join(b), WHERE, domain="accept", key="standalone_braced_content",
                desc="standalone_braced_content on every printable-ASCII line of <= %d bytes: Some(inner) exactly when the blank-trimmed line "
                     "starts with `{` and ends with `}`; inner is what lies between; no panic" % N,
                functions=["standalone_braced_content (src/mechfs.rs, extracted verbatim)", "str::trim"], bounds="printable ASCII + tab, <= %d bytes" % N,
                unwind=N + 3, tier="quick"))
    b = ["let bytes: [u8; 7] = kani::any(); let len: usize = kani::any(); kani::assume(len <= 7);",
         "{ let mut k = 0; while k < 7 { kani::assume(bytes[k] < 128 && bytes[k] >= 32); k += 1; } }",
         "let line: &str = ::std::str::from_utf8(&bytes[..len]).unwrap();",
         "let mut e = len; while e > 0 && bytes[e - 1] == b' ' { e -= 1; }",
         "let want = e >= 4 && bytes[e - 4] == b'.' && bytes[e - 3] == b'm' && bytes[e - 2] == b'e' && bytes[e - 1] == b'c';",
         "kani::cover!(want, \"VP:reached-include\");",
         "assert!(looks_like_mech_include(line) == want, \"VP:include-target-misclassified\");"]
    hs.append(H("c20_looks_like_mech_include", "    " + "\n    ".join(b), WHERE, domain="accept", key="looks_like_mech_include",
                desc="looks_like_mech_include on printable-ASCII strings of <= 7 bytes: true exactly when the trimmed text ends with `.mec`",
                functions=["looks_like_mech_include (src/mechfs.rs, extracted verbatim)"], bounds="printable ASCII, <= 7 bytes", unwind=10, tier="quick"))
    cargo = '[package]\nname = "vx-mechfs"\nversion = "0.0.0"\nedition = "2024"\n\n[lib]\npath = "src/lib.rs"\n\n[lints.rust]\nunexpected_cfgs = { level = "allow" }\n'
    lib = "#![allow(warnings)]\n// extracted verbatim from /repo/src/mechfs.rs\n" + "\n\n".join(items[n] for n in FNS) + "\n\n#[cfg(kani)]\n"
    return {
        "harnesses": hs,
        "standalone": {CRATE: {"pkg": "vx-mechfs", "cargo": cargo, "lib_prelude": lib}},
        "extracted": {n: hashlib.sha256(items[n].encode()).hexdigest() for n in FNS},
        "explanation": "Kani/CBMC over the line classifiers of the include expander, extracted verbatim from src/mechfs.rs at run time, on every ASCII "
                       "line up to the bound, against a byte-scanning reference written in the harness",
        "bounds": "ASCII lines of <= %d bytes (7 for the `.mec` test)" % N,
        "outside": ["expand_mechdown_includes_recursive / expand_mechdown_include_tokens: the include graph, cycle detection, missing files, "
                    "relative path resolution (they work on the real file system through Path::canonicalize, File::open and a HashSet<PathBuf>)",
                    "non-ASCII lines (multi-byte characters after the fence markers)", "lines longer than %d bytes" % N],
        "caps": {"quick_timeout": 900, "thorough_timeout": 1800},
    }
