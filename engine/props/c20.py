"""C20 - source includes (narrow): the line classifiers that decide what is an include line and what is fenced.

The functions are private to the `mech` binary crate, whose dependency closure (tokio, warp, reqwest, notify ...) is not
compiled under Kani.  The item text of `looks_like_mech_include`, `code_fence_delimiter`, `is_code_fence_close` and
`standalone_braced_content` is extracted verbatim from /repo/src/mechfs.rs on every run (brace matching; the SHA-256 of each
item goes into the evidence) into a stand-alone harness crate; they depend on `std` only.
"""
import re, hashlib
from ..model import H
from .common import *

SHIM = r"""
// ---------------------------------------------------------------------------------------------------------------
// environment model for the include expander: a file system of two directories (d0, d1 = d0/s) and three file slots;
// std::path::{Path, PathBuf}, std::fs::File, HashSet, MechError/GenericError are replaced by small deterministic types with the
// same contracts (the names shadow the std ones for the extracted code, which is compiled unchanged)
pub mod shim {
  pub const W: usize = 9;            // every line is W bytes including its '\n'
  pub const MAXL: usize = 3;
  #[derive(Clone, Copy, PartialEq, Eq)]
  pub struct Path { pub dir: u8, pub name: u8 }        // name 0 = the directory itself; 255 = a path that names nothing
  #[derive(Clone, PartialEq, Eq)]
  pub struct PathBuf(pub Path);
  impl std::ops::Deref for PathBuf { type Target = Path; fn deref(&self) -> &Path { &self.0 } }
  pub static DIRS: [Path; 2] = [Path { dir: 0, name: 0 }, Path { dir: 1, name: 0 }];
  pub struct Disp;
  impl std::fmt::Display for Disp { fn fmt(&self, _f: &mut std::fmt::Formatter<'_>) -> std::fmt::Result { Ok(()) } }
  #[derive(Clone, Copy)]
  pub struct FileSlot { pub dir: u8, pub name: u8, pub exists: bool, pub nlines: usize, pub kinds: [u8; MAXL] }
  pub struct Fs { pub files: [FileSlot; 3] }
  pub static mut FS: Fs = Fs { files: [FileSlot { dir: 0, name: 0, exists: false, nlines: 0, kinds: [0; MAXL] }; 3] };
  pub fn fs() -> &'static Fs { unsafe { &*(&raw const FS) } }
  pub fn slot_of(p: &Path) -> Option<usize> {
    let fs = fs();
    let mut i = 0;
    while i < 3 { let f = &fs.files[i]; if f.exists && f.dir == p.dir && f.name == p.name && p.name != 0 && p.name != 255 { return Some(i); } i += 1; }
    None
  }
  impl Path {
    pub fn new(_s: &str) -> &'static Path { &DIRS[0] }
    pub fn parent(&self) -> Option<&Path> { if self.name == 0 { None } else { Some(&DIRS[self.dir as usize]) } }
    pub fn join(&self, raw: &str) -> PathBuf {
      // relative spellings the model knows: `x.mec`, `s/x.mec` (from d0), `../x.mec` (from d1 = d0/s); x one ASCII letter
      let b = raw.as_bytes();
      let bad = PathBuf(Path { dir: self.dir, name: 255 });
      if self.name != 0 { return bad; }
      if b.len() == 5 && b[1] == b'.' && b[2] == b'm' && b[3] == b'e' && b[4] == b'c' { return PathBuf(Path { dir: self.dir, name: b[0] }); }
      if b.len() == 7 && b[0] == b's' && b[1] == b'/' && b[3] == b'.' && b[4] == b'm' && b[5] == b'e' && b[6] == b'c' {
        return if self.dir == 0 { PathBuf(Path { dir: 1, name: b[2] }) } else { bad };
      }
      if b.len() == 8 && b[0] == b'.' && b[1] == b'.' && b[2] == b'/' && b[4] == b'.' && b[5] == b'm' && b[6] == b'e' && b[7] == b'c' {
        return if self.dir == 1 { PathBuf(Path { dir: 0, name: b[3] }) } else { bad };
      }
      bad
    }
    pub fn canonicalize(&self) -> Result<PathBuf, ()> { if slot_of(self).is_some() { Ok(PathBuf(*self)) } else { Err(()) } }
    pub fn display(&self) -> Disp { Disp }
  }
  pub struct File { slot: usize }
  impl File {
    pub fn open(p: &PathBuf) -> Result<File, ()> { match slot_of(&p.0) { Some(s) => Ok(File { slot: s }), None => Err(()) } }
    pub fn read_to_string(&mut self, out: &mut String) -> Result<usize, ()> {
      let f: FileSlot = fs().files[self.slot];
      let mut i = 0;
      while i < f.nlines { out.push_str(line_text(f.kinds[i])); i += 1; }
      Ok(f.nlines * W)
    }
  }
  pub struct HashSet<T> { v: Vec<T> }
  impl<T: PartialEq> HashSet<T> {
    pub fn new() -> Self { HashSet { v: Vec::new() } }
    pub fn contains(&self, x: &T) -> bool { let mut i = 0; while i < self.v.len() { if self.v[i] == *x { return true; } i += 1; } false }
    pub fn insert(&mut self, x: T) -> bool { if self.contains(&x) { false } else { self.v.push(x); true } }
    pub fn remove(&mut self, x: &T) -> bool { let mut i = 0; while i < self.v.len() { if self.v[i] == *x { self.v.swap_remove(i); return true; } i += 1; } false }
  }
  pub struct GenericError { pub msg: String }
  pub struct MechError { pub msg: String }
  impl MechError {
    pub fn new(k: GenericError, _t: Option<()>) -> MechError { MechError { msg: k.msg } }
    pub fn with_compiler_loc(self) -> MechError { self }
  }
  pub type MResult<T> = Result<T, MechError>;
  // line kinds (every text is W bytes)
  pub const K_TEXT: u8 = 0; pub const K_INC_A: u8 = 1; pub const K_INC_B: u8 = 2; pub const K_INC_C: u8 = 3; pub const K_F3: u8 = 4;
  pub const K_F4: u8 = 5; pub const K_T3: u8 = 6; pub const K_BRACE: u8 = 7; pub const K_INLINE: u8 = 8; pub const K_INC_A_IND: u8 = 9;
  pub const K_F3_IND4: u8 = 10; pub const NKINDS: u8 = 11;
  pub fn line_text(k: u8) -> &'static str {
    match k {
      0 => "x := 1+2\n", 1 => "{a.mec} \n", 2 => "{b.mec} \n", 3 => "{c.mec} \n", 4 => "```     \n", 5 => "````    \n", 6 => "~~~     \n",
      7 => "{x}     \n", 8 => "y{a.mec}\n", 9 => " {a.mec}\n", _ => "    ``` \n",
    }
  }
}
use shim::{Path, PathBuf, File, HashSet, GenericError, MechError, MResult};
"""

ORACLE = r"""
  use super::shim::*;
  pub fn verif_stub_memchr(x: u8, text: &[u8]) -> Option<usize> { let mut i = 0; while i < text.len() { if text[i] == x { return Some(i); } i += 1; } None }
  // reference model: structural expansion over line kinds.  Err(1) = circular include, Err(2) = include failed
  fn inc_target(k: u8, dir: u8) -> Option<(u8, u8)> {
    match k { K_INC_A | K_INC_A_IND => Some((dir, b'a')), K_INC_B => Some((dir, b'b')), K_INC_C => Some((dir, b'c')), _ => None }
  }
  fn oracle(slot: usize, active: &mut [bool; 3], out: &mut String, depth: usize) -> Result<(), u8> {
    if active[slot] { return Err(1); }
    active[slot] = true;
    let f: FileSlot = fs().files[slot];
    let mut fence: Option<(u8, usize)> = None;
    let mut i = 0;
    while i < f.nlines {
      let k = f.kinds[i];
      let t = line_text(k);
      let as_fence: Option<(u8, usize)> = match k { K_F3 => Some((b'`', 3)), K_F4 => Some((b'`', 4)), K_T3 => Some((b'~', 3)), _ => None };
      if let Some((m, n)) = fence {
        out.push_str(t);
        if let Some((m2, n2)) = as_fence { if m2 == m && n2 >= n { fence = None; } }
      } else if as_fence.is_some() {
        fence = as_fence; out.push_str(t);
      } else if let Some((d, nm)) = inc_target(k, f.dir) {
        match slot_of(&Path { dir: d, name: nm }) {
          None => return Err(2),
          Some(s2) => { oracle(s2, active, out, depth + 1)?; out.push_str("\n"); }
        }
      } else { out.push_str(t); }
      i += 1;
    }
    active[slot] = false;
    Ok(())
  }
"""

HBODY = r"""let n = [%(n0)dusize, %(n1)d, %(n2)d];
    let layout = [(0u8, b'a'), (0u8, b'b'), (0u8, b'c')];
    let mut s = 0;
    while s < 3 {
      let mut kinds = [0u8; MAXL];
      let mut j = 0;
      while j < n[s] { let k: u8 = kani::any(); kani::assume(k < NKINDS); kinds[j] = k; j += 1; }
      let ex: bool = if s == 0 { true } else { kani::any() };
      unsafe { (*(&raw mut FS)).files[s] = FileSlot { dir: layout[s].0, name: layout[s].1, exists: ex, nlines: n[s], kinds }; }
      s += 1;
    }
    let entry = Path { dir: 0, name: b'a' };
    let got = expand_mechdown_includes(&entry);
    let mut want = String::new();
    let mut active = [false; 3];
    let w = oracle(0, &mut active, &mut want, 0);
    match (got, w) {
      (Ok(g), Ok(())) => {
        kani::cover!(g.len() != %(n0)d * W, "VP:reached-nested");
        assert!(g.len() == want.len(), "VP:expansion-length-differs");
        let gb = g.as_bytes(); let wb = want.as_bytes(); let mut i = 0;
        while i < gb.len() && i < wb.len() { assert!(gb[i] == wb[i], "VP:expansion-differs-from-substitution"); i += 1; }
        forget(g);
      }
      (Err(e), Err(code)) => {
        kani::cover!(code == 1, "VP:reached-cycle"); kani::cover!(code == 2, "VP:reached-missing");
        let circ = e.msg.len() != 0;      // std::fmt::format is stubbed to the empty string; only the circular-include message is a literal
        assert!(circ == (code == 1), "VP:wrong-error-kind"); forget(e);
      }
      (Ok(g), Err(code)) => { forget(g); assert!(code != 1, "VP:value-for-cyclic-include"); assert!(code != 2, "VP:value-for-missing-include"); }
      (Err(e), Ok(())) => { forget(e); assert!(false, "VP:error-for-loadable-file"); }
    }
    forget(want);"""

CRATE = "x_mechfs"
CRATE2 = "x_mechfs_inc"
# (lines of a.mec, b.mec, c.mec, tier)
INC_SHAPES = [(2, 1, 0, "off"), (2, 2, 1, "off")]
WHERE = (CRATE, "src/lib.rs")
FNS = ["looks_like_mech_include", "code_fence_delimiter", "is_code_fence_close", "standalone_braced_content"]
N = 6


def extract_fn(src, name):
    m = re.search(r"^fn\s+%s\b" % re.escape(name), src, re.M)
    if not m:
        raise SystemExit("INCONCLUSIVE: function %s not found in src/mechfs.rs" % name)
    i = src.index("{", m.start())
    depth, j = 0, i
    while True:
        ch = src[j]
        if ch == "{":
            depth += 1
        elif ch == "}":
            depth -= 1
            if depth == 0:
                break
        j += 1
    return src[m.start():j + 1]


LINE = """let bytes: [u8; %d] = kani::any(); let len: usize = kani::any(); kani::assume(len <= %d);
    { let mut k = 0; while k < %d { kani::assume(bytes[k] < 128 && bytes[k] != 0); k += 1; } }
    let line: &str = ::std::str::from_utf8(&bytes[..len]).unwrap();""" % (N, N, N)


def plan(tier, seed):
    src = read_repo("src/mechfs.rs")
    items = {n: extract_fn(src, n) for n in FNS}
    hs = []
    # code_fence_delimiter: Some((m, n, j)) <=> <= 3 leading spaces, then n >= 3 equal markers m in {`, ~}; j = index after the run
    b = [LINE,
         "let mut sp = 0; while sp < len && bytes[sp] == b' ' { sp += 1; }",
         "let mut run = 0; let mk = if sp < len { bytes[sp] } else { 0 }; while sp + run < len && bytes[sp + run] == mk { run += 1; }",
         "let want = sp <= 3 && sp < len && (mk == b'`' || mk == b'~') && run >= 3;",
         "kani::cover!(want, \"VP:reached-fence\"); kani::cover!(!want, \"VP:reached-no-fence\");",
         "match code_fence_delimiter(line) {",
         "  Some((m, n, after)) => { assert!(want, \"VP:non-fence-line-classified-as-fence\"); assert!(m as u32 == mk as u32 && n == run && after == sp + run, \"VP:fence-marker-or-length-wrong\"); }",
         "  None => { assert!(!want, \"VP:fence-line-not-recognised\"); }",
         "}"]
    hs.append(H("c20_code_fence_delimiter", "    " + "\n    ".join(b), WHERE, domain="accept", key="code_fence_delimiter",
                desc="code_fence_delimiter on every ASCII line of <= %d bytes: Some((marker, run length, end)) exactly for lines with <= 3 leading "
                     "spaces followed by >= 3 equal ` or ~ markers; no panic" % N,
                functions=["code_fence_delimiter (src/mechfs.rs, extracted verbatim)"], bounds="ASCII lines, <= %d bytes" % N, unwind=N + 3, tier="quick"))
    # is_code_fence_close: same marker, run >= opening length, only blanks after
    b = [LINE, "let open_marker: u8 = kani::any(); kani::assume(open_marker == b'`' || open_marker == b'~');",
         "let min_len: usize = kani::any(); kani::assume(min_len >= 3 && min_len <= %d);" % N,
         "let mut sp = 0; while sp < len && bytes[sp] == b' ' { sp += 1; }",
         "let mut run = 0; while sp + run < len && bytes[sp + run] == open_marker { run += 1; }",
         "let mut rest_blank = true; { let mut k = sp + run; while k < len { let c = bytes[k]; if !(c == b' ' || c == b'\\t' || c == b'\\r' || c == b'\\n') { rest_blank = false; } k += 1; } }",
         "let want = sp <= 3 && run >= 3 && run >= min_len && rest_blank;",
         "kani::cover!(want, \"VP:reached-close\");",
         "let got = is_code_fence_close(line, open_marker as char, min_len);",
         "assert!(got == want, \"VP:fence-close-misclassified\");"]
    hs.append(H("c20_is_code_fence_close", "    " + "\n    ".join(b), WHERE, domain="accept", key="is_code_fence_close",
                desc="is_code_fence_close on every ASCII line of <= %d bytes, both markers, every opening length: true exactly when the line is "
                     "<= 3 spaces, a run of the same marker at least as long as the opening one, then only blanks" % N,
                functions=["is_code_fence_close", "code_fence_delimiter (src/mechfs.rs, extracted verbatim)"], bounds="ASCII lines, <= %d bytes" % N,
                unwind=N + 3, tier="quick"))
    # standalone_braced_content + looks_like_mech_include: an include line is `{` ... `.mec}` after trimming blanks
    b = [LINE,
         "{ let mut k = 0; while k < %d { kani::assume(bytes[k] >= 32 || bytes[k] == b'\\t'); k += 1; } }" % N,
         "let mut s = 0; while s < len && (bytes[s] == b' ' || bytes[s] == b'\\t') { s += 1; }",
         "let mut e = len; while e > s && (bytes[e - 1] == b' ' || bytes[e - 1] == b'\\t') { e -= 1; }",
         "let braced = e > s && bytes[s] == b'{' && bytes[e - 1] == b'}' && e - s >= 2;",
         "kani::cover!(braced, \"VP:reached-braced\");",
         "match standalone_braced_content(line) {",
         "  Some(inner) => { assert!(braced, \"VP:unbraced-line-classified-as-braced\"); assert!(inner.len() == e - s - 2, \"VP:braced-content-wrong\"); }",
         "  None => { assert!(!braced || e - s < 2, \"VP:braced-line-not-recognised\"); }",
         "}"]
    hs.append(H("c20_standalone_braced_content", "    " + "\n    ".join(b), WHERE, domain="accept", key="standalone_braced_content",
                desc="standalone_braced_content on every printable-ASCII line of <= %d bytes: Some(inner) exactly when the blank-trimmed line "
                     "starts with `{` and ends with `}`; inner is what lies between; no panic" % N,
                functions=["standalone_braced_content (src/mechfs.rs, extracted verbatim)", "str::trim"], bounds="printable ASCII + tab, <= %d bytes" % N,
                unwind=N + 3, tier="quick"))
    b = ["let bytes: [u8; 7] = kani::any(); let len: usize = kani::any(); kani::assume(len <= 7);",
         "{ let mut k = 0; while k < 7 { kani::assume(bytes[k] < 128 && bytes[k] >= 32); k += 1; } }",
         "let line: &str = ::std::str::from_utf8(&bytes[..len]).unwrap();",
         "let mut e = len; while e > 0 && bytes[e - 1] == b' ' { e -= 1; }",
         "let want = e >= 4 && bytes[e - 4] == b'.' && bytes[e - 3] == b'm' && bytes[e - 2] == b'e' && bytes[e - 1] == b'c';",
         "kani::cover!(want, \"VP:reached-include\");",
         "assert!(looks_like_mech_include(line) == want, \"VP:include-target-misclassified\");"]
    hs.append(H("c20_looks_like_mech_include", "    " + "\n    ".join(b), WHERE, domain="accept", key="looks_like_mech_include",
                desc="looks_like_mech_include on printable-ASCII strings of <= 7 bytes: true exactly when the trimmed text ends with `.mec`",
                functions=["looks_like_mech_include (src/mechfs.rs, extracted verbatim)"], bounds="printable ASCII, <= 7 bytes", unwind=10, tier="quick"))
    # (b) the include expander itself over a symbolic file system (see SHIM): expand_mechdown_includes -> _recursive -> _include_tokens
    FNS2 = FNS + ["expand_mechdown_include_tokens", "expand_mechdown_includes", "expand_mechdown_includes_recursive"]
    items2 = {n: extract_fn(src, n) for n in FNS2}
    for (n0, n1, n2, tr) in INC_SHAPES:
        h = H("c20_includes_%d_%d_%d" % (n0, n1, n2), "    " + HBODY % {"n0": n0, "n1": n1, "n2": n2}, (CRATE2, "src/lib.rs"), domain="accept",
              key="includes/%d.%d.%d" % (n0, n1, n2),
              desc="expand_mechdown_includes on a symbolic file system: a.mec (%d lines, entry), b.mec (%d lines, may be missing), c.mec (%d lines, may be "
                   "missing); every line is one of 11 kinds (text, include of a/b/c, indented include, inline braces, brace expression, ``` / ```` / ~~~ "
                   "fences, 4-space-indented fence): the result equals the textual substitution of the include graph, a reachable cycle gives the "
                   "circular-include error, a reachable missing file the include-failed error, fenced lines are untouched" % (n0, n1, n2),
              functions=["expand_mechdown_includes", "expand_mechdown_includes_recursive", "expand_mechdown_include_tokens", "standalone_braced_content",
                         "looks_like_mech_include", "code_fence_delimiter", "is_code_fence_close (src/mechfs.rs, extracted verbatim)"],
              bounds="3 files in one directory, %d/%d/%d lines of 9 bytes, include depth <= 4" % (n0, n1, n2), unwind=9 * max(n0, 1) * max(n1, 1) * max(n2, 1) + 12, tier=tr)
        h.attrs = ["#[kani::stub(::core::slice::memchr::memchr, verif_stub_memchr)]"]
        h.off_reason = ("no verdict: symbolic execution of the String-building expander (push_str / split_inclusive / trim over symbolic contents) was still "
                        "running after 900 s / 4.8 GB for the 2+1-line file system and after 520 s / 4.7 GB for the 2+2+1-line one (measured 2026-09-25)")
        hs.append(h)
    cargo2 = '[package]\nname = "vx-mechfs-inc"\nversion = "0.0.0"\nedition = "2024"\n\n[lib]\npath = "src/lib.rs"\n\n[lints.rust]\nunexpected_cfgs = { level = "allow" }\n'
    lib2 = "#![allow(warnings)]\n" + SHIM + "\n// extracted verbatim from /repo/src/mechfs.rs\n" + "\n\n".join(items2[n] for n in FNS2) + "\n\n#[cfg(kani)]\n"
    cargo = '[package]\nname = "vx-mechfs"\nversion = "0.0.0"\nedition = "2024"\n\n[lib]\npath = "src/lib.rs"\n\n[lints.rust]\nunexpected_cfgs = { level = "allow" }\n'
    lib = "#![allow(warnings)]\n// extracted verbatim from /repo/src/mechfs.rs\n" + "\n\n".join(items[n] for n in FNS) + "\n\n#[cfg(kani)]\n"
    return {
        "harnesses": hs,
        "standalone": {CRATE: {"pkg": "vx-mechfs", "cargo": cargo, "lib_prelude": lib},
                       CRATE2: {"pkg": "vx-mechfs-inc", "cargo": cargo2, "lib_prelude": lib2, "mod_prelude": ORACLE}},
        "extracted": {n: hashlib.sha256(items2[n].encode()).hexdigest() for n in FNS2},
        "explanation": "Kani/CBMC over the line classifiers of the include expander, extracted verbatim from src/mechfs.rs at run time, on every ASCII "
                       "line up to the bound, against a byte-scanning reference written in the harness",
        "bounds": "ASCII lines of <= %d bytes (7 for the `.mec` test)" % N,
        "outside": ["expand_mechdown_includes_recursive / expand_mechdown_include_tokens: the include graph, cycle detection, missing files, "
                    "relative path resolution.  A harness over a symbolic three-file system (shim Path/File/HashSet, structural reference expansion) "
                    "exists (c20_includes_*, tier off) and got no verdict: see excluded_no_verdict",
                    "non-ASCII lines (multi-byte characters after the fence markers)", "lines longer than %d bytes" % N],
        "caps": {"quick_timeout": 900, "thorough_timeout": 1800},
    }
