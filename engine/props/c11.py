"""C11 - matrix construction by concatenation.

The harnesses call the real impl_horzcat_fxn / impl_vertcat_fxn (private; harness copy of mech-interpreter, f64 slice,
kissat) on symbolic blocks of concrete shapes and compare every element of the result with the block that covers it.
A complete two-row literal is the composition vertcat(horzcat(row1), horzcat(row2)).
"""
import os, re
from ..model import H
from .common import *
from .c03 import slice_for as c03_slice

WH = ("interpreter", "src/stdlib/horzcat.rs")
WV = ("interpreter", "src/stdlib/vertcat.rs")


def slice_for(t):
    return c03_slice(t)


def extract(t):
    from .c03 import extract as c03_extract
    return c03_extract(t, "")


def block_value(t, k, form, shape):
    """statements defining b{k}: [t; n] symbolic and bv{k}: Value"""
    n = shape[0] * shape[1]
    s = [sym_array(t, "b%d" % k, n)]
    s.append("let bv%d = %s;" % (k, value_of(form, t, "Ref::new(%s)" % mk_form(form, t, "b%d" % k, shape))))
    return s


ARMS = {   # (direction, arm triple) -> name
    ("h", ("2", "m", "n")): "h2mn", ("h", ("3", "m", "n")): "h3mn", ("h", ("4", "m", "n")): "h4mn", ("h", ("l", "m", "n")): "hlmn",
    ("h", ("m", "1", "n")): "hm1n",
    ("v", ("2", "m", "n")): "v2mn", ("v", ("3", "m", "n")): "v3mn", ("v", ("4", "m", "n")): "v4mn", ("v", ("l", "m", "n")): "vlmn",
    ("v", ("2", "m", "1")): "v2m1", ("v", ("3", "m", "1")): "v3m1", ("v", ("4", "m", "1")): "v4m1", ("v", ("l", "m", "1")): "vlm1",
}


def gen_cat(direction, t, blocks, tier, arm=None):
    """blocks: list of (form, (r,c)).  direction 'h': same rows, columns add up; 'v': same cols, rows add up.
    arm: None = through the whole dispatch function; a triple = through that arm of the dispatch macro only (common.extract_macro_arm)"""
    fxn = "impl_horzcat_fxn" if direction == "h" else "impl_vertcat_fxn"
    where = WH if direction == "h" else WV
    b = []
    for k, (form, shape) in enumerate(blocks):
        b += block_value(t, k, form, shape)
    if direction == "h":
        R = blocks[0][1][0]
        C = sum(s[1] for _, s in blocks)
    else:
        C = blocks[0][1][1]
        R = sum(s[0] for _, s in blocks)
    b.append("let args = [%s];" % ", ".join("bv%d" % k for k in range(len(blocks))))
    b.append("kani::cover!(true, \"VP:reached-call\");")
    if arm:
        an = ARMS[(direction, arm)]
        vals = {0: len(blocks), 1: R, 2: C}
        extra = "".join(", %d" % vals[i] for i, x in enumerate(arm) if re.fullmatch(r"[a-z_]\w*", x))
        b.append("match vp_arm_%s_%s(&args[..]%s) {" % (an, t.lower(), extra))
    else:
        b.append("match vp_%s(&args[..]) {" % fxn)
    b.append("  Err(e) => { forget(e); assert!(false, \"VP:rejected-compatible-blocks\"); }")
    b.append("  Ok(f) => {")
    b.append("    f.solve();")
    b.append("    let v = f.out();")
    b.append("    " + extract(t))
    b.append("    assert!(rows == %d && cols == %d, \"VP:wrong-shape\");" % (R, C))
    checks = []
    off = 0
    for k, (form, (r, c)) in enumerate(blocks):
        for j in range(c):
            for i in range(r):
                src = "b%d[%d]" % (k, i + j * r)
                if direction == "h":
                    dst = "rd(%d)" % (i + (off + j) * R)
                else:
                    dst = "rd(%d)" % ((off + i) + j * R)
                checks.append(eq_expr(t, dst, src))
        off += c if direction == "h" else r
    b.append("    if rows == %d && cols == %d { assert!(%s, \"VP:block-element-misplaced\"); }" % (R, C, " && ".join(checks)))
    b.append("    f.solve(); let v2 = f.out();")
    b.append("    kani::cover!(true, \"VP:reached\");")
    b.append("    forget(v); forget(v2); forget(f);")
    b.append("  }")
    b.append("}")
    b.append("forget(args);")
    tag = "_".join("%s%dx%d" % (f.lower(), s[0], s[1]) for f, s in blocks)
    if arm:
        fxn = "%s arm (%s)" % ("impl_horzcat_arms!" if direction == "h" else "impl_vertcat_arms!", ",".join(arm))
    h = H("c11_%scat_%s%s_%s" % (direction, ("arm_" if arm else ""), t.lower(), tag), "    " + "\n    ".join(b), where, domain="accept", key="%s/%s/%s" % (fxn, t, tag),
          desc="%s of blocks [%s] (%s): accepted, result %dx%d, every element is the element of the block that covers it"
               % ("horizontal concatenation" if direction == "h" else "vertical concatenation",
                  ", ".join("%s %dx%d" % (f, s[0], s[1]) for f, s in blocks), t, R, C),
          functions=["%s (src/interpreter/src/stdlib/%s: pattern table, output allocation)" % (fxn, where[1].split("/")[-1]),
                     "concatenation struct solve/out + CopyMat::copy_into* (src/core/src/structures/matrix.rs)"],
          bounds="%d blocks, result %dx%d, all element values" % (len(blocks), R, C), unwind=(max(R * C, len(blocks)) if arm else max(R, C, len(blocks))) + 2, tier=tier,
          group=fxn, solver="kissat")
    h.slice = slice_for(t)
    h.heavy = True
    # the dispatchers collect the blocks' kinds in a HashSet<ValueKind>: all-colliding hasher stub, see c14.HASHER_STUBS
    from .c14 import STUB_RS, STUB_DH
    h.attrs = [STUB_RS] + STUB_DH
    if any(f != "S" for f, _ in blocks):
        h.stub_kind_as = TY_VARIANT[t]
    if arm:
        h.arm = (direction, arm)
        h.heavy = False
    return h


ARGS_STRUCT = {2: "TwoArgs", 3: "ThreeArgs", 4: "FourArgs"}


def gen_l1(direction, t, blocks, tier, out_form="MD"):
    """L1: the concatenation struct built the way its dispatch arm builds it (blocks through Matrix::get_copyable_matrix, output
    allocated with the total shape and the element kind's default), then the real solve()/out().
    out_form MD: {Horizontal,Vertical}Concatenate{TwoArgs,ThreeArgs,FourArgs,NArgs} (DMatrix output);
    out_form VD: VerticalConcatenateVD{2,3,4} (column vectors stacked into a DVector)."""
    n = len(blocks)
    pre = "HorizontalConcatenate" if direction == "h" else "VerticalConcatenate"
    where = WH if direction == "h" else WV
    if out_form == "VD":
        struct = "%sVD%d" % (pre, n)
    else:
        struct = pre + ARGS_STRUCT.get(n, "NArgs")
    b = []
    for k, (form, shape) in enumerate(blocks):
        nel = shape[0] * shape[1]
        b.append(sym_array(t, "b%d" % k, nel))
        b.append("let rc%d = Ref::new(%s);" % (k, mk_form(form, t, "b%d" % k, shape)))
        b.append("let e%d: Box<dyn CopyMat<%s>> = Matrix::%s(rc%d.clone()).get_copyable_matrix();" % (k, t, SHAPE_IDENT[form], k))
    if direction == "h":
        R = blocks[0][1][0]
        C = sum(sh[1] for _, sh in blocks)
    else:
        C = blocks[0][1][1]
        R = sum(sh[0] for _, sh in blocks)
    if out_form == "VD":
        b.append("let out = Ref::new(DVector::<%s>::from_element(%d, %s));" % (t, R, default_of(t)))
    else:
        b.append("let out = Ref::new(DMatrix::<%s>::from_element(%d, %d, %s));" % (t, R, C, default_of(t)))
    if struct.endswith("NArgs"):
        b.append("let f = %s::<%s> { e0: vec![%s], out: out.clone() };" % (struct, t, ", ".join("e%d" % k for k in range(n))))
    else:
        b.append("let f = %s::<%s> { %s, out: out.clone() };" % (struct, t, ", ".join("e%d" % k for k in range(n))))
    b.append("f.solve();")
    b.append("let v = f.out();")
    b.append(extract(t))
    b.append("assert!(rows == %d && cols == %d, \"VP:wrong-shape\");" % (R, C))
    checks = []
    off = 0
    for k, (form, (r, c)) in enumerate(blocks):
        for j in range(c):
            for i in range(r):
                src = "b%d[%d]" % (k, i + j * r)
                dst = "rd(%d)" % ((i + (off + j) * R) if direction == "h" else ((off + i) + j * R))
                checks.append(eq_expr(t, dst, src))
        off += c if direction == "h" else r
    b.append("if rows == %d && cols == %d { assert!(%s, \"VP:block-element-misplaced\"); }" % (R, C, " && ".join(checks)))
    # the blocks themselves are not modified
    b.append("assert!(%s, \"VP:block-modified\");" % " && ".join(
        "{ let s = rc%d.borrow(); %s }" % (k, " && ".join(eq_expr(t, "s[%d]" % q, "b%d[%d]" % (k, q)) for q in range(sh[0] * sh[1])))
        for k, (_, sh) in enumerate(blocks)))
    # C19 rider: a second solve() over a scribbled output gives the same matrix
    b.append("{ let mut o = out.borrow_mut(); let z: %s = %s; o[0] = z; }" % (t, "kani::any()" if t in INTS + FLOATS + ["bool"] else default_of(t)))
    b.append("f.solve();")
    b.append("{ let o = out.borrow(); assert!(%s, \"VP:second-solve-differs\"); }" % eq_expr(t, "o[0]", "b0[0]"))
    b.append("kani::cover!(true, \"VP:reached\");")
    b.append("forget(v); forget(f); forget(out);" + "".join(" forget(rc%d);" % k for k in range(n)))
    tag = "_".join("%s%dx%d" % (f_.lower(), sh[0], sh[1]) for f_, sh in blocks)
    h = H("c11_l1_%scat_%s_%s%s" % (direction, t.lower(), tag, "_vd" if out_form == "VD" else ""), "    " + "\n    ".join(b), where, domain="accept",
          key="L1/%s/%s/%s" % (struct, t, tag),
          desc="%s<%s> built as its dispatch arm builds it from blocks [%s]: result %dx%d, every element is the element of the block that covers it "
               "(column-major), blocks unchanged, a second solve() restores a scribbled output" % (struct, t, ", ".join("%s %dx%d" % (f_, sh[0], sh[1]) for f_, sh in blocks), R, C),
          functions=["%s::solve/out (src/interpreter/src/stdlib/%s)" % (struct, where[1].split("/")[-1]),
                     "Matrix::get_copyable_matrix, CopyMat::%s (src/core/src/structures/matrix.rs)" % ({"h": "copy_into", "v": "copy_into_row_major"}[direction] if out_form == "MD" else "copy_into_v")],
          bounds="%d blocks, result %dx%d, all element values" % (n, R, C), unwind=max(R * C, n) + 2, tier=tier, group="L1-" + struct)
    h.slice = slice_for(t)
    return h


def plan(tier, seed):
    t = "f64"
    S, RD, VD, MD = "S", "RD", "VD", "MD"
    hcases = [
        [(S, (1, 1)), (S, (1, 1))], [(S, (1, 1)), (S, (1, 1)), (S, (1, 1))], [(S, (1, 1)), (RD, (1, 2))], [(RD, (1, 2)), (S, (1, 1))],
        [(RD, (1, 2)), (RD, (1, 2))], [(S, (1, 1)), (RD, (1, 2)), (S, (1, 1))],
        [(VD, (2, 1)), (VD, (2, 1))], [(MD, (2, 2)), (VD, (2, 1))], [(VD, (2, 1)), (MD, (2, 2))], [(MD, (2, 2)), (MD, (2, 2))],
        [(VD, (2, 1)), (VD, (2, 1)), (VD, (2, 1))], [(VD, (3, 1)), (MD, (3, 2))], [(RD, (1, 3))], [(MD, (2, 2))],
    ]
    vcases = [
        [(S, (1, 1)), (S, (1, 1))], [(S, (1, 1)), (S, (1, 1)), (S, (1, 1))], [(VD, (2, 1)), (S, (1, 1))], [(S, (1, 1)), (VD, (2, 1))],
        [(VD, (2, 1)), (VD, (2, 1))], [(RD, (1, 2)), (RD, (1, 2))], [(MD, (2, 2)), (RD, (1, 2))], [(RD, (1, 2)), (MD, (2, 2))],
        [(MD, (2, 2)), (MD, (2, 2))], [(RD, (1, 3)), (RD, (1, 3)), (RD, (1, 3))], [(RD, (1, 2)), (MD, (2, 2)), (RD, (1, 2))],
    ]
    hs = []
    for k, c in enumerate(hcases):
        hs.append(gen_cat("h", t, c, "quick" if k % 4 == seed % 4 else "thorough"))
    for k, c in enumerate(vcases):
        hs.append(gen_cat("v", t, c, "quick" if k % 4 == (seed + 1) % 4 else "thorough"))
    hs.append(gen_cat("h", "u8", [(RD, (1, 2)), (S, (1, 1))], "thorough"))
    hs.append(gen_cat("v", "u8", [(RD, (1, 2)), (RD, (1, 2))], "thorough"))
    hs.append(gen_cat("h", t, [(VD, (2, 1)), (VD, (2, 1)), (VD, (2, 1)), (VD, (2, 1))], "thorough"))
    # Measured: every case with a matrix block next to another block runs out of 9 GB in the propositional reduction or gets no
    # verdict in 900 s (the concatenation structs keep their blocks as Vec<(Box<dyn CopyMat<T>>, usize)>).  Scalar-only rows and
    # columns and the single-block case are decided.
    for h in hs:
        nblocks = h.key.split("/")[2].count("x")
        scalar_only = all(part.startswith("s") for part in h.key.split("/")[2].split("_"))
        if not ((scalar_only and h.name.startswith("c11_hcat")) or h.name == "c11_hcat_f64_rd1x3"):
            h.tier = "off"
            h.off_reason = ("matrix blocks next to other blocks, vertical concatenation (also of scalars) and a single 2x2 block "
                            "(Vec<(Box<dyn CopyMat<T>>, usize)> kernels): out of 9 GB / no verdict in 900 s")
        elif h.tier != "quick":
            h.tier = "quick"
    # L1: the general-purpose concatenation structs with vector and matrix blocks
    l1h = [[(VD, (2, 1)), (VD, (2, 1))], [(MD, (2, 2)), (VD, (2, 1))], [(VD, (2, 1)), (MD, (2, 2))], [(MD, (2, 2)), (MD, (2, 2))],
           [(VD, (3, 1)), (MD, (3, 2))], [(VD, (2, 1)), (VD, (2, 1)), (VD, (2, 1))], [(VD, (2, 1)), (MD, (2, 2)), (VD, (2, 1))],
           [(MD, (2, 2)), (VD, (2, 1)), (MD, (2, 1))], [(VD, (2, 1)), (VD, (2, 1)), (VD, (2, 1)), (VD, (2, 1))],
           [(VD, (2, 1)), (MD, (2, 2)), (VD, (2, 1)), (MD, (2, 1))], [(VD, (2, 1)), (VD, (2, 1)), (VD, (2, 1)), (VD, (2, 1)), (VD, (2, 1))],
           [(MD, (2, 2)), (VD, (2, 1)), (VD, (2, 1)), (VD, (2, 1)), (MD, (2, 1))]]
    l1v = [[(RD, (1, 2)), (RD, (1, 2))], [(MD, (2, 2)), (RD, (1, 2))], [(RD, (1, 2)), (MD, (2, 2))], [(MD, (2, 2)), (MD, (2, 2))],
           [(RD, (1, 3)), (MD, (2, 3))], [(RD, (1, 2)), (RD, (1, 2)), (RD, (1, 2))], [(RD, (1, 2)), (MD, (2, 2)), (RD, (1, 2))],
           [(RD, (1, 2)), (RD, (1, 2)), (RD, (1, 2)), (RD, (1, 2))], [(MD, (2, 2)), (RD, (1, 2)), (RD, (1, 2)), (MD, (1, 2))],
           [(RD, (1, 2)), (RD, (1, 2)), (RD, (1, 2)), (RD, (1, 2)), (RD, (1, 2))], [(RD, (1, 2)), (MD, (2, 2)), (RD, (1, 2)), (RD, (1, 2)), (RD, (1, 2))]]
    l1 = []
    for k, c in enumerate(l1h):
        l1.append(gen_l1("h", t, c, "quick" if (len(c) != 3 or k % 2 == seed % 2) else "thorough"))
    for k, c in enumerate(l1v):
        l1.append(gen_l1("v", t, c, "quick" if (len(c) != 3 or k % 2 == seed % 2) else "thorough"))
    l1.append(gen_l1("v", t, [(VD, (2, 1)), (VD, (2, 1))], "quick", out_form="VD"))
    l1.append(gen_l1("v", t, [(VD, (2, 1)), (VD, (1, 1)), (VD, (2, 1))], "quick", out_form="VD"))
    l1.append(gen_l1("v", t, [(VD, (1, 1)), (VD, (2, 1)), (VD, (1, 1)), (VD, (2, 1))], "quick", out_form="VD"))
    l1.append(gen_l1("h", "u8", [(MD, (2, 2)), (VD, (2, 1))], "thorough"))
    l1.append(gen_l1("v", "i64", [(RD, (1, 2)), (MD, (2, 2))], "thorough"))
    l1.append(gen_l1("h", "bool", [(VD, (2, 1)), (VD, (2, 1)), (VD, (2, 1))], "thorough"))
    hs += l1
    # arm level: the dynamic arms of the dispatch macros with vector / matrix blocks
    armc = [("h", ("2", "m", "n"), [(VD, (2, 1)), (VD, (2, 1))]), ("h", ("2", "m", "n"), [(MD, (2, 2)), (VD, (2, 1))]),
            ("h", ("3", "m", "n"), [(VD, (2, 1)), (MD, (2, 2)), (VD, (2, 1))]), ("h", ("4", "m", "n"), [(VD, (2, 1)), (VD, (2, 1)), (VD, (2, 1)), (VD, (2, 1))]),
            ("h", ("4", "m", "n"), [(MD, (2, 2)), (VD, (2, 1)), (VD, (2, 1)), (MD, (2, 1))]),
            ("h", ("l", "m", "n"), [(VD, (2, 1)), (VD, (2, 1)), (MD, (2, 2)), (VD, (2, 1)), (VD, (2, 1))]),
            ("h", ("m", "1", "n"), [(RD, (1, 2)), (RD, (1, 2))]), ("h", ("m", "1", "n"), [(S, (1, 1)), (RD, (1, 2)), (S, (1, 1))]),
            ("h", ("m", "1", "n"), [(RD, (1, 2)), (S, (1, 1)), (RD, (1, 1)), (S, (1, 1))]),
            ("v", ("2", "m", "n")), ("v", ("3", "m", "n")), ("v", ("4", "m", "n")), ("v", ("l", "m", "n")),
            ("v", ("2", "m", "1")), ("v", ("3", "m", "1")), ("v", ("4", "m", "1")), ("v", ("l", "m", "1"))]
    vblocks = {("2", "m", "n"): [[(RD, (1, 2)), (RD, (1, 2))], [(MD, (2, 2)), (RD, (1, 2))]], ("3", "m", "n"): [[(RD, (1, 2)), (MD, (2, 2)), (RD, (1, 2))]],
               ("4", "m", "n"): [[(RD, (1, 2)), (RD, (1, 2)), (RD, (1, 2)), (RD, (1, 2))], [(MD, (2, 2)), (RD, (1, 2)), (RD, (1, 2)), (MD, (1, 2))]],
               ("l", "m", "n"): [[(RD, (1, 2)), (RD, (1, 2)), (MD, (2, 2)), (RD, (1, 2)), (RD, (1, 2))]],
               ("2", "m", "1"): [[(VD, (2, 1)), (VD, (2, 1))], [(VD, (2, 1)), (VD, (1, 1))]], ("3", "m", "1"): [[(VD, (2, 1)), (VD, (1, 1)), (VD, (2, 1))]],
               ("4", "m", "1"): [[(VD, (1, 1)), (VD, (2, 1)), (VD, (1, 1)), (VD, (2, 1))]], ("l", "m", "1"): [[(VD, (1, 1)), (VD, (2, 1)), (VD, (1, 1)), (VD, (1, 1)), (VD, (1, 1))]]}
    arms = []
    for c in armc:
        if len(c) == 3:
            arms.append(gen_cat(c[0], t, c[2], "quick", arm=c[1]))
        else:
            for bl in vblocks[c[1]]:
                arms.append(gen_cat(c[0], t, bl, "quick", arm=c[1]))
    arms.append(gen_cat("h", "u8", [(MD, (2, 2)), (VD, (2, 1)), (VD, (2, 1)), (MD, (2, 1))], "thorough", arm=("4", "m", "n")))
    hs += arms
    if os.environ.get("VERIF_C11_DEBUG"):
        b = ["let a: [f64; 2] = kani::any();",
             "let r1 = Ref::new(DVector::<f64>::from_element(2, 0.0));",
             "let m1 = Matrix::DVector(r1.clone()); let m1b = Matrix::DVector(r1.clone());",
             "if let Matrix::DVector(r) = &m1 { if r.addr() != r1.addr() { let mut i = 0u32; while i < 1000 { i += 1; } } }",
             "if let Matrix::DVector(r) = &m1b { if r.addr() != r1.addr() { let mut i = 0u32; while i < 1000 { i += 1; } } }",
             "let mut d2 = DVector::<f64>::from_element(2, 0.0); d2[0] = a[0]; d2[1] = a[1]; let r2 = Ref::new(d2);",
             "let m2 = Matrix::DVector(r2.clone());",
             "if let Matrix::DVector(r) = &m2 { if r.addr() != r2.addr() { let mut i = 0u32; while i < 1000 { i += 1; } } }",
             "if let Matrix::DVector(r) = &m2 { if r.borrow().nrows() != 2 { let mut i = 0u32; while i < 1000 { i += 1; } } }",
             "if let Matrix::DVector(r) = &m1 { if r.borrow().nrows() != 2 { let mut i = 0u32; while i < 1000 { i += 1; } } }",
             "let r3 = Ref::new(DVector::<f64>::from_vec(a.to_vec())); let m3 = Matrix::DVector(r3.clone());",
             "if let Matrix::DVector(r) = &m3 { if r.borrow().nrows() != 2 { let mut i = 0u32; while i < 1000 { i += 1; } } }",
             "if let Matrix::DVector(r) = &m3 { if r.addr() != r3.addr() { let mut i = 0u32; while i < 1000 { i += 1; } } }",
             "kani::cover!(true, \"VP:reached\");", "forget(r2); forget(r1); forget(m2); forget(m1); forget(m1b); forget(r3); forget(m3);"]
        h = H("c11_dbg_shape", "    " + "\n    ".join(b), WH, domain="accept", key="dbg", unwind=4, tier="quick", solver="kissat")
        h.slice = slice_for(t)
        hs.append(h)
    pre, extracted = {}, {}
    for where, fx, rel in ((WH, "impl_horzcat_fxn", "src/interpreter/src/stdlib/horzcat.rs"), (WV, "impl_vertcat_fxn", "src/interpreter/src/stdlib/vertcat.rs")):
        t_, h_ = extract_dispatch_fn(read_repo(rel), fx, rel)
        from .c14 import HASHER_STUBS
        pre[where] = HASHER_STUBS + t_
        extracted[fx] = h_
        d = "h" if where == WH else "v"
        macro = "impl_horzcat_arms" if d == "h" else "impl_vertcat_arms"
        for (dd, triple), an in sorted(ARMS.items()):
            if dd != d:
                continue
            kinds = sorted(set(h.name.split("_arm_")[1].split("_")[0] for h in hs if getattr(h, "arm", None) == (dd, triple)))
            if not kinds:
                continue
            txt, binders, sha = extract_macro_arm(read_repo(rel), macro, triple, rel, "vp_armgen_" + an)
            pre[where] += txt
            for k in kinds:
                ty = {"string": "String", "r64": "R64", "c64": "C64"}.get(k, k)
                pre[where] += "  #[cfg(feature = \"%s\")]\n  vp_armgen_%s!(vp_arm_%s_%s, %s, %s::default());\n" % (FEAT_OF.get(ty, ty), an, an, k, ty, ty)
            extracted["%s!(%s)" % (macro, ",".join(triple))] = sha
    return {
        "harnesses": hs,
        "incrate_prelude": pre,
        "extracted": extracted,
        "explanation": "Kani/CBMC over impl_horzcat_fxn / impl_vertcat_fxn (pattern tables + allocation) and the concatenation structs with their "
                       "CopyMat kernels, blocks symbolic, shapes concrete",
        "bounds": "dispatch function: rows of 2-3 scalar blocks and a single 1x3 block.  Struct level (L1) and arm level: 2, 3, 4 and 5 blocks per row / column, "
                  "blocks scalar, 2x1 / 3x1 / 1x2 / 1x3 vectors, 2x2 / 2x3 / 3x2 / 2x1-as-matrix blocks; element kinds f64 (u8, i64, bool samples)",
        "outside": ["impl_horzcat_fxn / impl_vertcat_fxn called as a whole with a vector or matrix block next to another block (no verdict: "
                    "Vec<(Box<dyn CopyMat<T>>, usize)>, see excluded_no_verdict): those shapes are decided in two pieces instead - the match arm of "
                    "impl_horzcat_arms! / impl_vertcat_arms! extracted verbatim (which struct, which argument order, output allocation) and the struct's "
                    "solve() (element placement); the is_compatible kind test in front of the arms is not on that path", "the rejection of blocks whose heights/widths disagree or whose kinds differ: those checks live in matrix()/matrix_row() "
                    "(src/interpreter/src/structures.rs), which evaluate syntax nodes with an Interpreter", "more than 5 blocks; results larger than 4x4 / 2x7",
                    "empty / optional elements", "fixed-size storage forms"],
        "caps": {"quick_timeout": 800, "thorough_timeout": 2400, "heavy_jobs": 10, "heavy_rss_gb": 6},
    }
