"""C11 - matrix construction by concatenation.

The harnesses call the real impl_horzcat_fxn / impl_vertcat_fxn (private; harness copy of mech-interpreter, f64 slice,
kissat) on symbolic blocks of concrete shapes and compare every element of the result with the block that covers it.
A complete two-row literal is the composition vertcat(horzcat(row1), horzcat(row2)).
"""
from ..model import H
from .common import *
from .c03 import slice_for as c03_slice

WH = ("interpreter", "src/stdlib/horzcat.rs")
WV = ("interpreter", "src/stdlib/vertcat.rs")


def slice_for(t):
    return c03_slice(t)


def extract(t):
    from .c03 import extract as c03_extract
    return c03_extract(t, "")


def block_value(t, k, form, shape):
    """statements defining b{k}: [t; n] symbolic and bv{k}: Value"""
    n = shape[0] * shape[1]
    s = [sym_array(t, "b%d" % k, n)]
    s.append("let bv%d = %s;" % (k, value_of(form, t, "Ref::new(%s)" % mk_form(form, t, "b%d" % k, shape))))
    return s


def gen_cat(direction, t, blocks, tier):
    """blocks: list of (form, (r,c)).  direction 'h': same rows, columns add up; 'v': same cols, rows add up"""
    fxn = "impl_horzcat_fxn" if direction == "h" else "impl_vertcat_fxn"
    where = WH if direction == "h" else WV
    b = []
    for k, (form, shape) in enumerate(blocks):
        b += block_value(t, k, form, shape)
    if direction == "h":
        R = blocks[0][1][0]
        C = sum(s[1] for _, s in blocks)
    else:
        C = blocks[0][1][1]
        R = sum(s[0] for _, s in blocks)
    b.append("let args = [%s];" % ", ".join("bv%d" % k for k in range(len(blocks))))
    b.append("kani::cover!(true, \"VP:reached-call\");")
    b.append("match vp_%s(&args[..]) {" % fxn)
    b.append("  Err(e) => { forget(e); assert!(false, \"VP:rejected-compatible-blocks\"); }")
    b.append("  Ok(f) => {")
    b.append("    f.solve();")
    b.append("    let v = f.out();")
    b.append("    " + extract(t))
    b.append("    assert!(rows == %d && cols == %d, \"VP:wrong-shape\");" % (R, C))
    checks = []
    off = 0
    for k, (form, (r, c)) in enumerate(blocks):
        for j in range(c):
            for i in range(r):
                src = "b%d[%d]" % (k, i + j * r)
                if direction == "h":
                    dst = "rd(%d)" % (i + (off + j) * R)
                else:
                    dst = "rd(%d)" % ((off + i) + j * R)
                checks.append(eq_expr(t, dst, src))
        off += c if direction == "h" else r
    b.append("    if rows == %d && cols == %d { assert!(%s, \"VP:block-element-misplaced\"); }" % (R, C, " && ".join(checks)))
    b.append("    f.solve(); let v2 = f.out();")
    b.append("    kani::cover!(true, \"VP:reached\");")
    b.append("    forget(v); forget(v2); forget(f);")
    b.append("  }")
    b.append("}")
    b.append("forget(args);")
    tag = "_".join("%s%dx%d" % (f.lower(), s[0], s[1]) for f, s in blocks)
    h = H("c11_%scat_%s_%s" % (direction, t.lower(), tag), "    " + "\n    ".join(b), where, domain="accept", key="%s/%s/%s" % (fxn, t, tag),
          desc="%s of blocks [%s] (%s): accepted, result %dx%d, every element is the element of the block that covers it"
               % ("horizontal concatenation" if direction == "h" else "vertical concatenation",
                  ", ".join("%s %dx%d" % (f, s[0], s[1]) for f, s in blocks), t, R, C),
          functions=["%s (src/interpreter/src/stdlib/%s: pattern table, output allocation)" % (fxn, where[1].split("/")[-1]),
                     "concatenation struct solve/out + CopyMat::copy_into* (src/core/src/structures/matrix.rs)"],
          bounds="%d blocks, result %dx%d, all element values" % (len(blocks), R, C), unwind=max(R, C, len(blocks)) + 2, tier=tier,
          group=fxn, solver="kissat")
    h.slice = slice_for(t)
    h.heavy = True
    # the dispatchers collect the blocks' kinds in a HashSet<ValueKind>: all-colliding hasher stub, see c14.HASHER_STUBS
    from .c14 import STUB_RS, STUB_DH
    h.attrs = [STUB_RS] + STUB_DH
    return h


def plan(tier, seed):
    t = "f64"
    S, RD, VD, MD = "S", "RD", "VD", "MD"
    hcases = [
        [(S, (1, 1)), (S, (1, 1))], [(S, (1, 1)), (S, (1, 1)), (S, (1, 1))], [(S, (1, 1)), (RD, (1, 2))], [(RD, (1, 2)), (S, (1, 1))],
        [(RD, (1, 2)), (RD, (1, 2))], [(S, (1, 1)), (RD, (1, 2)), (S, (1, 1))],
        [(VD, (2, 1)), (VD, (2, 1))], [(MD, (2, 2)), (VD, (2, 1))], [(VD, (2, 1)), (MD, (2, 2))], [(MD, (2, 2)), (MD, (2, 2))],
        [(VD, (2, 1)), (VD, (2, 1)), (VD, (2, 1))], [(VD, (3, 1)), (MD, (3, 2))], [(RD, (1, 3))], [(MD, (2, 2))],
    ]
    vcases = [
        [(S, (1, 1)), (S, (1, 1))], [(S, (1, 1)), (S, (1, 1)), (S, (1, 1))], [(VD, (2, 1)), (S, (1, 1))], [(S, (1, 1)), (VD, (2, 1))],
        [(VD, (2, 1)), (VD, (2, 1))], [(RD, (1, 2)), (RD, (1, 2))], [(MD, (2, 2)), (RD, (1, 2))], [(RD, (1, 2)), (MD, (2, 2))],
        [(MD, (2, 2)), (MD, (2, 2))], [(RD, (1, 3)), (RD, (1, 3)), (RD, (1, 3))], [(RD, (1, 2)), (MD, (2, 2)), (RD, (1, 2))],
    ]
    hs = []
    for k, c in enumerate(hcases):
        hs.append(gen_cat("h", t, c, "quick" if k % 4 == seed % 4 else "thorough"))
    for k, c in enumerate(vcases):
        hs.append(gen_cat("v", t, c, "quick" if k % 4 == (seed + 1) % 4 else "thorough"))
    hs.append(gen_cat("h", "u8", [(RD, (1, 2)), (S, (1, 1))], "thorough"))
    hs.append(gen_cat("v", "u8", [(RD, (1, 2)), (RD, (1, 2))], "thorough"))
    hs.append(gen_cat("h", t, [(VD, (2, 1)), (VD, (2, 1)), (VD, (2, 1)), (VD, (2, 1))], "thorough"))
    # Measured: every case with a matrix block next to another block runs out of 9 GB in the propositional reduction or gets no
    # verdict in 900 s (the concatenation structs keep their blocks as Vec<(Box<dyn CopyMat<T>>, usize)>).  Scalar-only rows and
    # columns and the single-block case are decided.
    for h in hs:
        nblocks = h.key.split("/")[2].count("x")
        scalar_only = all(part.startswith("s") for part in h.key.split("/")[2].split("_"))
        if not ((scalar_only and h.name.startswith("c11_hcat")) or h.name == "c11_hcat_f64_rd1x3"):
            h.tier = "off"
            h.off_reason = ("matrix blocks next to other blocks, vertical concatenation (also of scalars) and a single 2x2 block "
                            "(Vec<(Box<dyn CopyMat<T>>, usize)> kernels): out of 9 GB / no verdict in 900 s")
        elif h.tier != "quick":
            h.tier = "quick"
    pre, extracted = {}, {}
    for where, fx, rel in ((WH, "impl_horzcat_fxn", "src/interpreter/src/stdlib/horzcat.rs"), (WV, "impl_vertcat_fxn", "src/interpreter/src/stdlib/vertcat.rs")):
        t_, h_ = extract_dispatch_fn(read_repo(rel), fx, rel)
        from .c14 import HASHER_STUBS
        pre[where] = HASHER_STUBS + t_
        extracted[fx] = h_
    return {
        "harnesses": hs,
        "incrate_prelude": pre,
        "extracted": extracted,
        "explanation": "Kani/CBMC over impl_horzcat_fxn / impl_vertcat_fxn (pattern tables + allocation) and the concatenation structs with their "
                       "CopyMat kernels, blocks symbolic, shapes concrete",
        "bounds": "rows of 2-3 scalar blocks and a single 1x3 block; element kind f64",
        "outside": ["every concatenation in which a vector or matrix block stands next to another block, and every vertical concatenation (no verdict: see "
                    "excluded_no_verdict) - the element placement of multi-block matrices is therefore NOT decided by this check", "the rejection of blocks whose heights/widths disagree or whose kinds differ: those checks live in matrix()/matrix_row() "
                    "(src/interpreter/src/structures.rs), which evaluate syntax nodes with an Interpreter", "more than 3 blocks",
                    "empty / optional elements", "fixed-size storage forms"],
        "caps": {"quick_timeout": 900, "thorough_timeout": 2400, "heavy_jobs": 6, "heavy_rss_gb": 9},
    }
