"""C05 - binding isolation (narrow): the mechanism a definition `y := x` rests on.

`variable_define` stores `detach_variable_value(&result)` in the symbol table.  A variable defined without `~` keeps its
value whatever follows iff that stored value shares no cell with the value it was read from.  The harness builds a value
held in a mutable variable's cell, detaches it the way variable_define does, writes a new (symbolic) value through the
original cell - exactly what `x = ...`, `x[i] = ...` and `x += ...` do - and asserts that the detached value still reads
the old value.  Plus one step of SymbolTable: an immutable insert is not reachable through get_mutable.
"""
from ..model import H
from .common import *

WHERE = ("interpreter", "src/statements.rs")
WHERE_ST = ("core", "src/program/symbol_table.rs")
from .c03 import SLICE_BASE as _SB
SLICE = ",".join(dict.fromkeys(_SB + ["u8"]))


def gen_scalar(t, tier):
    var = TY_VARIANT[t]
    b = [sym_stmt(t, "old"), sym_stmt(t, "new"), "kani::assume(%s);" % ("old.to_bits() != new.to_bits()" if t in FLOATS else "old != new"),
         "let cell = Ref::new(old.clone());",
         "let x = Value::MutableReference(Ref::new(Value::%s(cell.clone())));" % var,
         "let y = detach_variable_value(&x);",
         "{ let mut c = cell.borrow_mut(); *c = new.clone(); }     // what `x = new` does to x's cell",
         "match &y { Value::%s(c) => { let got = c.borrow().clone(); assert!(%s, \"VP:immutable-binding-changed-through-other-name\"); }, "
         "_ => { assert!(false, \"VP:detached-value-kind-changed\"); } }" % (var, eq_expr(t, "got", "old")),
         "kani::cover!(true, \"VP:reached\");", "forget(x); forget(y); forget(cell);"]
    h = H("c05_detach_scalar_%s" % t.lower(), "    " + "\n    ".join(b), WHERE, domain="accept", key="detach/scalar/%s" % var,
          desc="y := x for a %s x, then a write through x's cell: y still holds the value it was defined with" % t,
          functions=["detach_variable_value (src/interpreter/src/statements.rs)", "Value::clone"], bounds="all old/new values", unwind=4, tier=tier)
    h.slice = SLICE
    return h


def gen_matrix(t, tier):
    var = TY_VARIANT[t]
    b = [sym_array(t, "old", 2), sym_stmt(t, "new"), "kani::assume(%s);" % ("old[0].to_bits() != new.to_bits()" if t in FLOATS else "old[0] != new"),
         "let cell = Ref::new(RowDVector::from_vec(old.to_vec()));",
         "let x = Value::MutableReference(Ref::new(Value::Matrix%s(Matrix::RowDVector(cell.clone()))));" % var,
         "let y = detach_variable_value(&x);",
         "{ let mut c = cell.borrow_mut(); c[0] = new.clone(); }   // what `x[1] = new` does",
         "match &y { Value::Matrix%s(Matrix::RowDVector(c)) => { let got = c.borrow()[0].clone(); assert!(%s, \"VP:immutable-binding-changed-through-other-name\"); }, "
         "_ => { assert!(false, \"VP:detached-value-kind-changed\"); } }" % (var, eq_expr(t, "got", "old[0]")),
         "kani::cover!(true, \"VP:reached\");", "forget(x); forget(y); forget(cell);"]
    h = H("c05_detach_matrix_%s" % t.lower(), "    " + "\n    ".join(b), WHERE, domain="accept", key="detach/matrix/%s" % var,
          desc="y := x for a 1x2 %s matrix x, then x[1] = new: y[1] still holds the old element" % t,
          functions=["detach_variable_value", "Value::clone", "Matrix::clone"], bounds="1x2, all values", unwind=5, tier=tier)
    h.slice = SLICE
    return h


def gen_symtab(tier):
    b = ["let v: u8 = kani::any(); let w: u8 = kani::any();", "let mut st = SymbolTable::new();",
         "let c1 = st.insert(11, Value::U8(Ref::new(v)), false);",
         "assert!(st.get_mutable(11).is_none(), \"VP:immutable-binding-is-mutable\");",
         "assert!(st.contains(11) && !st.contains(12), \"VP:defined-names-wrong\");",
         "let c2 = st.insert(12, Value::U8(Ref::new(w)), true);",
         "assert!(st.get_mutable(12).is_some() && st.get_mutable(11).is_none(), \"VP:immutable-binding-is-mutable\");",
         "match &*st.get(11).unwrap().borrow() { Value::U8(c) => { assert!(*c.borrow() == v, \"VP:binding-changed-by-other-insert\"); }, _ => { assert!(false, \"VP:binding-kind-changed\"); } }",
         "kani::cover!(true, \"VP:reached\");", "forget(st); forget(c1); forget(c2);"]
    h = H("c05_symbol_table_step", "    " + "\n    ".join(b), WHERE_ST, domain="accept", key="symbol-table/step",
             desc="SymbolTable: an immutable insert is invisible to get_mutable; inserting another name leaves it unchanged",
             functions=["SymbolTable::insert/get/get_mutable/contains (src/core/src/program/symbol_table.rs)"],
             bounds="two names (concrete ids), symbolic u8 values; HashMap under the all-colliding hasher stub", unwind=18, tier=tier)
    from .c14 import STUB_RS, STUB_DH
    h.attrs = [STUB_RS] + STUB_DH
    h.tier = "off"
    h.off_reason = "std HashMap (hashbrown) insert/lookup: out of 10 GB, also under the all-colliding hasher stub"
    h.rec_limit = 1
    return h


def plan(tier, seed):
    hs = [gen_scalar("f64", "quick"), gen_scalar("u8", "thorough"), gen_scalar("bool", "thorough"),
          gen_matrix("f64", "quick"), gen_matrix("u8", "thorough"), gen_symtab("thorough")]
    return {
        "harnesses": hs,
        "incrate_prelude": {WHERE: "  use nalgebra::{DVector, DMatrix, RowDVector};\n",
                            WHERE_ST: __import__("engine.props.c14", fromlist=["x"]).HASHER_STUBS},
        "explanation": "Kani/CBMC over detach_variable_value (the only step between evaluating `y := x` and storing y) and one SymbolTable step, "
                       "with the cell contents symbolic",
        "bounds": "scalars f64/u8/bool, 1x2 matrices f64/u8; one definition followed by one write through the source's cell",
        "outside": ["statement histories (redefinition rejected, failed statement leaves every binding unchanged, tuple destructuring, field "
                    "assignment): they need Interpreter + syntax trees + the function registry", "records, tuples, sets, tables",
                    "never aborts the host: catch_unwind at Interpreter::interpret is read, not encoded"],
        "caps": {"quick_timeout": 600, "thorough_timeout": 1200},
    }
