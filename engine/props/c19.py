"""C19 - re-evaluation (narrow: the one-step lemma).

`Interpreter::step(0, n)` calls `solve()` on every function of the plan, in order, n times.  Re-evaluation is a no-op for a
program without (op-)assignment if every plan function (i) computes its output from its input cells only - whatever an
earlier step left in the output cell does not matter - and (ii) never writes its input cells.  This is decided for the
generated kernels by the harnesses of C01 (operators), C03 (indexing), C11 (concatenation) and C15 (ranges): after the
first solve() the output is overwritten with an arbitrary value (or simply solved again) and must come back identical,
and the input cells must still hold their initial symbolic values.  For assignment kernels (C04) the second solve() of the
same assignment must leave the sink as the first did (determinism of re-running an assignment with unchanged source).
Only the tags VP:resolve-differs / VP:input-modified / VP:second-solve-differs / VP:source-modified count here.
"""
from . import c01, c03, c04, c15
from ..model import H
from .common import *


def gen_matmul(t, n, tier):
    """MatMul<DMatrix, DMatrix> (machines/matrix/src/matmul.rs, `mul_to`): n x n times n x n with small symbolic elements, solved
    twice - the output of the second solve equals the first (it must overwrite, not accumulate), equals the product, and the
    operands are untouched"""
    N = n * n
    b = [sym_array(t, "a", N), sym_array(t, "b", N),
         "kani::assume(%s);" % " && ".join("a[%d] < 8 && b[%d] < 8" % (k, k) for k in range(N)),
         "let lc = Ref::new(DMatrix::<%s>::from_vec(%d, %d, a.to_vec())); let rc = Ref::new(DMatrix::<%s>::from_vec(%d, %d, b.to_vec()));" % (t, n, n, t, n, n),
         "let oc = Ref::new(DMatrix::<%s>::from_element(%d, %d, 0 as %s));" % (t, n, n, t),
         "let f = MatMulMDMD::<%s> { lhs: lc.clone(), rhs: rc.clone(), out: oc.clone() };" % t,
         "f.solve();"]
    want = []
    for j in range(n):
        for i in range(n):
            want.append(" + ".join("a[%d] * b[%d]" % (i + k * n, k + j * n) for k in range(n)))
    b.append("let want: [%s; %d] = [%s];" % (t, N, ", ".join(want)))
    b.append("{ let o = oc.borrow(); assert!(%s, \"VP:wrong-product\"); }" % " && ".join("o[%d] == want[%d]" % (k, k) for k in range(N)))
    b.append("f.solve();")
    b.append("{ let o = oc.borrow(); assert!(%s, \"VP:second-solve-differs\"); }" % " && ".join("o[%d] == want[%d]" % (k, k) for k in range(N)))
    b.append("{ let l = lc.borrow(); let r = rc.borrow(); assert!(%s, \"VP:input-modified\"); }" % " && ".join("l[%d] == a[%d] && r[%d] == b[%d]" % (k, k, k, k) for k in range(N)))
    b.append("kani::cover!(true, \"VP:reached\");")
    b.append("forget(f); forget(lc); forget(rc); forget(oc);")
    return H("c19_matmul_mdmd_%s_%dx%d" % (t, n, n), "    " + "\n    ".join(b), ("matrix", "src/matmul.rs"), domain="accept",
             key="C19/L1/MatMulMDMD<%s>/%dx%d" % (t, n, n),
             desc="%dx%d ** %dx%d on %s (elements < 8): solve twice - product correct, second solve identical, operands untouched" % (n, n, n, n, t),
             functions=["MatMulMDMD::solve (machines/matrix/src/matmul.rs: matmul_op -> nalgebra mul_to)"], bounds="%dx%d, elements 0..7" % (n, n),
             unwind=N + 2, tier=tier)


STEP_WHERE = ("interpreter", "src/interpreter.rs")
STEP_LOG = 12


def interpreter_initializer():
    """the `Self { .. }` initializer of Interpreter::new, copied from the source (all fields and their cfg attributes), so that the
    harness can build an Interpreter around an empty ProgramState without load_stdkinds / load_stdlib (hash-map population)"""
    src = read_repo("src/interpreter/src/interpreter.rs")
    m = re.search(r"pub fn new\(id: u64\) -> Self \{", src)
    if not m:
        raise SystemExit("INCONCLUSIVE: Interpreter::new not found")
    i = src.index("    Self {", m.end())
    j = src.index("{", i)
    depth, k = 0, j
    while True:
        if src[k] == "{":
            depth += 1
        elif src[k] == "}":
            depth -= 1
            if depth == 0:
                break
        k += 1
    return "Interpreter " + src[j:k + 1]


STEP_PRELUDE = """
  pub struct VpProbe { pub id: u8, pub log: Ref<[u8; %(L)d]>, pub pos: Ref<usize> }
  impl MechFunctionImpl for VpProbe {
    fn solve(&self) { let mut p = self.pos.borrow_mut(); if *p < %(L)d { self.log.borrow_mut()[*p] = self.id; } *p += 1; }
    fn out(&self) -> Value { Value::Empty }
    fn to_string(&self) -> String { String::new() }
  }
  #[cfg(feature = "compiler")]
  impl MechFunctionCompiler for VpProbe { fn compile(&self, _ctx: &mut CompileCtx) -> MResult<Register> { unreachable!() } }
  pub fn vp_random_state() -> ::std::hash::RandomState { unsafe { ::std::mem::transmute::<[u64; 2], ::std::hash::RandomState>([0x0123_4567_89ab_cdefu64, 0x0fed_cba9_8765_4321u64]) } }
  pub fn vp_instant_now() -> ::std::time::Instant { unsafe { ::std::mem::zeroed() } }
  pub fn vp_instant_elapsed(_i: &::std::time::Instant) -> ::std::time::Duration { ::std::time::Duration::ZERO }
""" % {"L": STEP_LOG}


def gen_step(tier, LEN=3, NMAX=2):
    """Interpreter::step(0, n) on a plan of LEN probe functions that log their solve() calls: the call sequence is the plan in order,
    n times over, and equals the sequence of n requests for one step.  Every `fxn.solve()` in step() is a dyn call over all
    MechFunction implementors of the crate, and symbolic execution unrolls both loops of step() to the unwind bound whatever n is:
    plan length concrete, n <= NMAX, no loops in the harness itself (unwind = max(LEN, NMAX) + 2)."""
    L = LEN * NMAX
    assert L <= STEP_LOG
    init = interpreter_initializer()
    b = ["let n: u64 = kani::any(); kani::assume(n <= %d);" % NMAX,
         "let log = Ref::new([0u8; %d]); let pos = Ref::new(0usize);" % STEP_LOG,
         "let state = ProgramState::new();"]
    for j_ in range(LEN):
        b.append("state.plan.borrow_mut().push(Box::new(VpProbe { id: %d, log: log.clone(), pos: pos.clone() }));" % (j_ + 1))
    b += ["let id: u64 = 0;",
          "let mut it = %s;" % init,
          "let r = it.step(0, n);",
          "match r { Ok(v) => { forget(v); }, Err(e) => { forget(e); assert!(false, \"VP:step-rejected\"); } }",
          "let first: [u8; %d] = *log.borrow(); let calls = *pos.borrow();" % STEP_LOG,
          "assert!(calls == (n as usize) * %d, \"VP:second-solve-differs:number-of-solve-calls\");" % LEN]
    for k in range(L):
        b.append("if %d < calls { assert!(first[%d] == %d, \"VP:second-solve-differs:plan-not-run-in-order-once-per-step\"); }" % (k, k, (k % LEN) + 1))
    b += ["kani::cover!(n == %d, \"VP:reached-max-steps\");" % NMAX,
          "// n requests for one step",
          "{ *log.borrow_mut() = [0u8; %d]; *pos.borrow_mut() = 0; }" % STEP_LOG]
    for q in range(NMAX):
        b.append("if %d < n { match it.step(0, 1) { Ok(v) => { forget(v); }, Err(e) => { forget(e); assert!(false, \"VP:step-rejected\"); } } }" % q)
    b += ["let second: [u8; %d] = *log.borrow();" % STEP_LOG,
          "assert!(*pos.borrow() == calls, \"VP:second-solve-differs:n-single-steps-vs-one-request\");",
          "assert!(%s, \"VP:second-solve-differs:n-single-steps-vs-one-request\");" % " && ".join("first[%d] == second[%d]" % (k, k) for k in range(L)),
          "kani::cover!(true, \"VP:reached\");",
          "forget(it);"]
    h = H("c19_step_loop", "    " + "\n    ".join(b), STEP_WHERE, domain="accept", key="Interpreter::step/loop",
          desc="Interpreter::step(0, n) over a plan of %d logging probe functions, n <= %d symbolic: every plan function is solved once per step, in "
               "plan order, and n requests for one step produce the same sequence of solve() calls as one request for n steps" % (LEN, NMAX),
          functions=["Interpreter::step (src/interpreter/src/interpreter.rs), step_id == 0 path, profile = false, trace = false", "ProgramState::new", "Plan"],
          bounds="plan length %d, n 0..%d; plan functions are probes that log their calls (the equality of call sequences carries over to any functions)" % (LEN, NMAX),
          unwind=max(LEN, NMAX) + 2, tier=tier, assumptions=["profile == false and trace == false (the profiling path reads the clock and prints)"])
    # RandomState::new -> fixed keys: the empty hash maps of ProgramState / Interpreter are only constructed, never probed
    h.attrs = ["#[kani::stub(::std::time::Instant::now, vp_instant_now)]", "#[kani::stub(::std::time::Instant::elapsed, vp_instant_elapsed)]",
               "#[kani::stub(::std::hash::RandomState::new, vp_random_state)]"]
    from .c05 import SLICE as C05_SLICE
    h.slice = C05_SLICE
    return h


def plan(tier, seed):
    hs = []
    libs = list(c01.OPS.keys())
    bins = [l for l in libs if c01.OPS[l][3] == 2]
    for n, lib in enumerate(libs):
        crate, relp, fxn, arity, cat, feat = c01.OPS[lib]
        kinds = c01.BASELINE[lib]
        simple = [k for k in kinds if c01.kind_class(k) in ("int", "float", "bool")]
        t = simple[(seed + 1) % len(simple)]
        if lib in ("Div", "Mod", "Pow") or (lib == "Mul" and t in FLOATS):
            # two solves of a symbolic-by-symbolic division per element: 16-bit and wider operands get no verdict in 900 s
            t = "u8" if "u8" in kinds else ("i8" if "i8" in kinds else t)
        q = "quick" if n % 3 == seed % 3 else "thorough"
        if arity == 2:
            for (lf, rf) in c01.KERNEL_FORMS:
                hs.append(c01.gen_bin_l1(lib, t, lf, rf, 0, q))
        else:
            for form in c01.UN_FORMS:
                hs.append(c01.gen_un_l1(lib, t, form, 0, q))
    t = "f64"
    hs.append(c03.gen(t, "MD", (2, 2), ("S",), (0,), "accept", "quick"))
    hs.append(c03.gen(t, "RD", (1, 3), ("V",), (2,), "accept", "quick"))
    hs.append(c03.gen(t, "MD", (2, 3), ("S", "S"), (0, 0), "accept", "thorough"))
    # logical-mask reads: the kernels resize their output to the number of true bits, a second solve() must find it unchanged
    hs.append(c03.gen_l1_mask(t, "1DVDb", "VD", (3, 1), (True, False, True), None, "quick"))
    hs.append(c03.gen_l1_mask(t, "2DVDbA", "MD", (3, 2), (True, False, True), None, "quick"))
    hs.append(c03.gen_l1_mask(t, "2DRRVBB", "MD", (2, 3), (True, True), (True, False, True), "thorough"))
    hs.append(c03.gen_l1_mask(t, "2DSVDb", "MD", (2, 3), None, (False, True, True), "thorough"))
    hs.append(c04.gen(t, "RD", (1, 3), ("S",), (0,), "scalar", "accept", "quick"))
    hs.append(c04.gen(t, "MD", (2, 2), ("V",), (2,), "scalar", "accept", "thorough"))
    hs.append(c15.gen_int("excl", "u8", "accept", "quick"))
    hs.append(c15.gen_int("incl_step", "i16", "accept", "thorough"))
    hs.append(gen_matmul("u8", 2, "quick"))
    hs.append(gen_matmul("i64", 2, "thorough"))
    hs.append(gen_step("quick"))
    for h in hs:
        h.name = h.name.replace("c01_", "c19_op_").replace("c03_", "c19_ix_").replace("c04_", "c19_as_").replace("c15_", "c19_rg_")
        h.key = "C19/" + h.key
    pre = {}
    pre.update(c03.plan(tier, seed)["incrate_prelude"])
    pre.update(c04.plan(tier, seed)["incrate_prelude"])
    pre[("matrix", "src/matmul.rs")] = "  use nalgebra::DMatrix;\n"
    pre[STEP_WHERE] = STEP_PRELUDE
    return {
        "harnesses": hs,
        "incrate_prelude": pre,
        "tag_filter": r"VP:(resolve-differs|input-modified|second-solve-differs|source-modified|wrong-product).*",
        "explanation": "Kani/CBMC over the generated plan functions (operator, indexing, assignment and range kernels): solve, perturb the "
                       "output cell, solve again - identical output, inputs untouched; plus the loop of Interpreter::step itself over a plan of "
                       "logging probe functions (n steps = n x one step, plan order); the induction over the plan is read, not encoded",
        "bounds": "same as the corresponding C01/C03/C04/C15 harnesses (shapes <= 2x3, all element values)",
        "outside": ["plan construction", "Interpreter::step with profile or trace on, and stepping a single plan entry (step_id > 0)", "hash-map iteration order across processes",
                    "op-assignment accumulation"],
        "caps": {"quick_timeout": 900, "thorough_timeout": 1800, "heavy_jobs": 8, "heavy_rss_gb": 8},
    }
