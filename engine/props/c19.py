"""C19 - re-evaluation (narrow: the one-step lemma).

`Interpreter::step(0, n)` calls `solve()` on every function of the plan, in order, n times.  Re-evaluation is a no-op for a
program without (op-)assignment if every plan function (i) computes its output from its input cells only - whatever an
earlier step left in the output cell does not matter - and (ii) never writes its input cells.  This is decided for the
generated kernels by the harnesses of C01 (operators), C03 (indexing), C11 (concatenation) and C15 (ranges): after the
first solve() the output is overwritten with an arbitrary value (or simply solved again) and must come back identical,
and the input cells must still hold their initial symbolic values.  For assignment kernels (C04) the second solve() of the
same assignment must leave the sink as the first did (determinism of re-running an assignment with unchanged source).
Only the tags VP:resolve-differs / VP:input-modified / VP:second-solve-differs / VP:source-modified count here.
"""
from . import c01, c03, c04, c15
from ..model import H
from .common import *


def gen_matmul(t, n, tier):
    """MatMul<DMatrix, DMatrix> (machines/matrix/src/matmul.rs, `mul_to`): n x n times n x n with small symbolic elements, solved
    twice - the output of the second solve equals the first (it must overwrite, not accumulate), equals the product, and the
    operands are untouched"""
    N = n * n
    b = [sym_array(t, "a", N), sym_array(t, "b", N),
         "kani::assume(%s);" % " && ".join("a[%d] < 8 && b[%d] < 8" % (k, k) for k in range(N)),
         "let lc = Ref::new(DMatrix::<%s>::from_vec(%d, %d, a.to_vec())); let rc = Ref::new(DMatrix::<%s>::from_vec(%d, %d, b.to_vec()));" % (t, n, n, t, n, n),
         "let oc = Ref::new(DMatrix::<%s>::from_element(%d, %d, 0 as %s));" % (t, n, n, t),
         "let f = MatMulMDMD::<%s> { lhs: lc.clone(), rhs: rc.clone(), out: oc.clone() };" % t,
         "f.solve();"]
    want = []
    for j in range(n):
        for i in range(n):
            want.append(" + ".join("a[%d] * b[%d]" % (i + k * n, k + j * n) for k in range(n)))
    b.append("let want: [%s; %d] = [%s];" % (t, N, ", ".join(want)))
    b.append("{ let o = oc.borrow(); assert!(%s, \"VP:wrong-product\"); }" % " && ".join("o[%d] == want[%d]" % (k, k) for k in range(N)))
    b.append("f.solve();")
    b.append("{ let o = oc.borrow(); assert!(%s, \"VP:second-solve-differs\"); }" % " && ".join("o[%d] == want[%d]" % (k, k) for k in range(N)))
    b.append("{ let l = lc.borrow(); let r = rc.borrow(); assert!(%s, \"VP:input-modified\"); }" % " && ".join("l[%d] == a[%d] && r[%d] == b[%d]" % (k, k, k, k) for k in range(N)))
    b.append("kani::cover!(true, \"VP:reached\");")
    b.append("forget(f); forget(lc); forget(rc); forget(oc);")
    return H("c19_matmul_mdmd_%s_%dx%d" % (t, n, n), "    " + "\n    ".join(b), ("matrix", "src/matmul.rs"), domain="accept",
             key="C19/L1/MatMulMDMD<%s>/%dx%d" % (t, n, n),
             desc="%dx%d ** %dx%d on %s (elements < 8): solve twice - product correct, second solve identical, operands untouched" % (n, n, n, n, t),
             functions=["MatMulMDMD::solve (machines/matrix/src/matmul.rs: matmul_op -> nalgebra mul_to)"], bounds="%dx%d, elements 0..7" % (n, n),
             unwind=N + 2, tier=tier)


def plan(tier, seed):
    hs = []
    libs = list(c01.OPS.keys())
    bins = [l for l in libs if c01.OPS[l][3] == 2]
    for n, lib in enumerate(libs):
        crate, relp, fxn, arity, cat, feat = c01.OPS[lib]
        kinds = c01.BASELINE[lib]
        simple = [k for k in kinds if c01.kind_class(k) in ("int", "float", "bool")]
        t = simple[(seed + 1) % len(simple)]
        if lib in ("Div", "Mod", "Pow"):
            # two solves of a symbolic-by-symbolic division per element: 16-bit and wider operands get no verdict in 900 s
            t = "u8" if "u8" in kinds else ("i8" if "i8" in kinds else t)
        q = "quick" if n % 3 == seed % 3 else "thorough"
        if arity == 2:
            for (lf, rf) in c01.KERNEL_FORMS:
                hs.append(c01.gen_bin_l1(lib, t, lf, rf, 0, q))
        else:
            for form in c01.UN_FORMS:
                hs.append(c01.gen_un_l1(lib, t, form, 0, q))
    t = "f64"
    hs.append(c03.gen(t, "MD", (2, 2), ("S",), (0,), "accept", "quick"))
    hs.append(c03.gen(t, "RD", (1, 3), ("V",), (2,), "accept", "quick"))
    hs.append(c03.gen(t, "MD", (2, 3), ("S", "S"), (0, 0), "accept", "thorough"))
    hs.append(c04.gen(t, "RD", (1, 3), ("S",), (0,), "scalar", "accept", "quick"))
    hs.append(c04.gen(t, "MD", (2, 2), ("V",), (2,), "scalar", "accept", "thorough"))
    hs.append(c15.gen_int("excl", "u8", "accept", "quick"))
    hs.append(c15.gen_int("incl_step", "i16", "accept", "thorough"))
    hs.append(gen_matmul("u8", 2, "quick"))
    hs.append(gen_matmul("i64", 2, "thorough"))
    for h in hs:
        h.name = h.name.replace("c01_", "c19_op_").replace("c03_", "c19_ix_").replace("c04_", "c19_as_").replace("c15_", "c19_rg_")
        h.key = "C19/" + h.key
    pre = {}
    pre.update(c03.plan(tier, seed)["incrate_prelude"])
    pre.update(c04.plan(tier, seed)["incrate_prelude"])
    pre[("matrix", "src/matmul.rs")] = "  use nalgebra::DMatrix;\n"
    return {
        "harnesses": hs,
        "incrate_prelude": pre,
        "tag_filter": r"VP:(resolve-differs|input-modified|second-solve-differs|source-modified|wrong-product).*",
        "explanation": "Kani/CBMC over the generated plan functions (operator, indexing, assignment and range kernels): solve, perturb the "
                       "output cell, solve again - identical output, inputs untouched; the induction over the plan and the loop of "
                       "Interpreter::step are read, not encoded",
        "bounds": "same as the corresponding C01/C03/C04/C15 harnesses (shapes <= 2x3, all element values)",
        "outside": ["plan construction and Interpreter::step itself", "hash-map iteration order across processes", "n single steps = one request "
                    "for n steps (the `for _ in 0..step_count` loop)", "op-assignment accumulation"],
        "caps": {"quick_timeout": 900, "thorough_timeout": 1800, "heavy_jobs": 8, "heavy_rss_gb": 8},
    }
