"""C19 - re-evaluation (narrow: the one-step lemma).

`Interpreter::step(0, n)` calls `solve()` on every function of the plan, in order, n times.  Re-evaluation is a no-op for a
program without (op-)assignment if every plan function (i) computes its output from its input cells only - whatever an
earlier step left in the output cell does not matter - and (ii) never writes its input cells.  This is decided for the
generated kernels by the harnesses of C01 (operators), C03 (indexing), C11 (concatenation) and C15 (ranges): after the
first solve() the output is overwritten with an arbitrary value (or simply solved again) and must come back identical,
and the input cells must still hold their initial symbolic values.  For assignment kernels (C04) the second solve() of the
same assignment must leave the sink as the first did (determinism of re-running an assignment with unchanged source).
Only the tags VP:resolve-differs / VP:input-modified / VP:second-solve-differs / VP:source-modified count here.
"""
from . import c01, c03, c04, c15


def plan(tier, seed):
    hs = []
    libs = list(c01.OPS.keys())
    bins = [l for l in libs if c01.OPS[l][3] == 2]
    for n, lib in enumerate(libs):
        crate, relp, fxn, arity, cat, feat = c01.OPS[lib]
        kinds = c01.BASELINE[lib]
        simple = [k for k in kinds if c01.kind_class(k) in ("int", "float", "bool")]
        t = simple[(seed + 1) % len(simple)]
        q = "quick" if n % 3 == seed % 3 else "thorough"
        if arity == 2:
            for (lf, rf) in c01.KERNEL_FORMS:
                hs.append(c01.gen_bin_l1(lib, t, lf, rf, 0, q))
        else:
            for form in c01.UN_FORMS:
                hs.append(c01.gen_un_l1(lib, t, form, 0, q))
    t = "f64"
    hs.append(c03.gen(t, "MD", (2, 2), ("S",), (0,), "accept", "quick"))
    hs.append(c03.gen(t, "RD", (1, 3), ("V",), (2,), "accept", "quick"))
    hs.append(c03.gen(t, "MD", (2, 3), ("S", "S"), (0, 0), "accept", "thorough"))
    hs.append(c04.gen(t, "RD", (1, 3), ("S",), (0,), "scalar", "accept", "quick"))
    hs.append(c04.gen(t, "MD", (2, 2), ("V",), (2,), "scalar", "accept", "thorough"))
    hs.append(c15.gen_int("excl", "u8", "accept", "quick"))
    hs.append(c15.gen_int("incl_step", "i16", "accept", "thorough"))
    for h in hs:
        h.name = h.name.replace("c01_", "c19_op_").replace("c03_", "c19_ix_").replace("c04_", "c19_as_").replace("c15_", "c19_rg_")
        h.key = "C19/" + h.key
    pre = {}
    pre.update(c03.plan(tier, seed)["incrate_prelude"])
    pre.update(c04.plan(tier, seed)["incrate_prelude"])
    return {
        "harnesses": hs,
        "incrate_prelude": pre,
        "tag_filter": r"VP:(resolve-differs|input-modified|second-solve-differs|source-modified).*",
        "explanation": "Kani/CBMC over the generated plan functions (operator, indexing, assignment and range kernels): solve, perturb the "
                       "output cell, solve again - identical output, inputs untouched; the induction over the plan and the loop of "
                       "Interpreter::step are read, not encoded",
        "bounds": "same as the corresponding C01/C03/C04/C15 harnesses (shapes <= 2x3, all element values)",
        "outside": ["plan construction and Interpreter::step itself", "hash-map iteration order across processes", "n single steps = one request "
                    "for n steps (the `for _ in 0..step_count` loop)", "op-assignment accumulation"],
        "caps": {"quick_timeout": 900, "thorough_timeout": 1800, "heavy_jobs": 8, "heavy_rss_gb": 8},
    }
