"""C15 - ranges are the arithmetic progressions they denote.

The element count is computed only inside the private dispatch functions impl_range_*_fxn, so everything here is a
dispatch-level (L2) harness inside the harness copy of mech-range: start / step / end are symbolic scalars of one kind,
the oracle is the progression a, a+s, a+2s, ... computed in the harness in a wider type, the mathematical length is
capped (<= 4) so that the fill loops unwind.
"""
from ..model import H
from .common import *

FILES = {
    "excl": ("range", "src/exclusive.rs", "impl_range_exclusive_fxn", False, False),
    "incl": ("range", "src/inclusive.rs", "impl_range_inclusive_fxn", True, False),
    "excl_step": ("range", "src/exclusive_increment.rs", "impl_range_increment_exclusive_fxn", False, True),
    "incl_step": ("range", "src/inclusive_increment.rs", "impl_range_increment_inclusive_fxn", True, True),
}
CAP = 4
WIDE = {"i8": "i32", "i16": "i32", "i32": "i64", "i64": "i128", "u8": "i32", "u16": "i32", "u32": "i64", "u64": "i128"}


def extract(ot):
    """loop-free inspection of the result: rows, cols and rd(k)"""
    from .c03 import extract as c03_extract
    return c03_extract(ot, "")


def gen_int(form, t, domain, tier):
    crate, relp, fxn, inclusive, stepped = FILES[form]
    w = WIDE[t]
    var = TY_VARIANT[t]
    signed = t.startswith("i")
    b = ["let a: %s = kani::any(); let e: %s = kani::any();" % (t, t)]
    if stepped:
        b.append("let s: %s = kani::any();" % t)
    else:
        b.append("let s: %s = 1;" % t)
    b.append("let (aw, ew, sw) = (a as %s, e as %s, s as %s);" % (w, w, w))
    # mathematical length n = #{ i >= 0 : a + i*s (< | <=) e } for s > 0; mirrored for s < 0; 0 otherwise
    cmp_up = "<=" if inclusive else "<"
    cmp_dn = ">=" if inclusive else ">"
    b.append("let n: %s = if sw > 0 && aw %s ew { (ew - aw %s) / sw + 1 } else if sw < 0 && aw %s ew { (aw - ew %s) / (-sw) + 1 } else { 0 };"
             % (w, cmp_up, "" if inclusive else "- 1", cmp_dn, "" if inclusive else "- 1"))
    args = "Value::%s(ac.clone()), %sValue::%s(ec.clone())" % (var, ("Value::%s(sc.clone()), " % var) if stepped else "", var)
    b.append("let ac = Ref::new(a); let ec = Ref::new(e); let sc = Ref::new(s);")
    if domain == "accept":
        b.append("kani::assume(n >= 1 && n <= %d);" % CAP)
        b.append("kani::cover!(n == %d, \"VP:reached-call\");" % CAP)
        b.append("match %s(%s) {" % (fxn, args))
        b.append("  Err(err) => { forget(err); assert!(false, \"VP:rejected-buildable-range\"); }")
        b.append("  Ok(f) => {")
        b.append("    f.solve();")
        b.append("    let v = f.out();")
        b.append("    " + extract(t))
        b.append("    assert!(rows == 1 && cols as %s == n, \"VP:wrong-length\");" % w)
        b.append("    let mut ok = true;")
        for i_ in range(CAP):
            b.append("    if %d < cols && (%d as %s) < n { if (rd(%d) as %s) != aw + (%d as %s) * sw { ok = false; } }" % (i_, i_, w, i_, w, i_, w))
        b.append("    assert!(ok, \"VP:wrong-element\");")
        b.append("    kani::cover!(true, \"VP:reached\");")
        b.append("    forget(v); forget(f);")
        b.append("  }")
        b.append("}")
        desc = "%s on %s with mathematical length 1..%d: accepted, 1xn row vector, element i = start + i*step" % (fxn, t, CAP)
    else:
        # nothing to build: zero step, wrong direction, empty.  Must be an error / panic, or an empty vector.
        b.append("kani::assume(n == 0);")
        b.append("kani::cover!(true, \"VP:reached-call\");")
        b.append("match %s(%s) {" % (fxn, args))
        b.append("  Err(err) => { kani::cover!(true, \"VP:rejected-err\"); forget(err); }")
        b.append("  Ok(f) => {")
        b.append("    let v = f.out();")
        b.append("    " + extract(t))
        b.append("    assert!(rows * cols == 0, \"VP:elements-for-empty-range\");")
        b.append("    forget(v); forget(f);")
        b.append("  }")
        b.append("}")
        desc = "%s on %s when the progression has no term (zero step, wrong direction, start past end): error, panic or empty vector" % (fxn, t)
    b.append("forget(ac); forget(ec); forget(sc);")
    h = H("c15_%s_%s_%s" % (form, t, domain), "    " + "\n    ".join(b), (crate, relp), domain=domain,
          key="%s/%s/%s" % (form, t, domain), desc=desc,
          functions=["%s (machines/range/%s: size computation, output allocation)" % (fxn, relp), "Range*Scalar::solve/out via dyn MechFunction"],
          bounds="start, end%s: all values of %s with mathematical length %s" % (", step" if stepped else "", t, "1..%d" % CAP if domain == "accept" else "0"),
          unwind=CAP + 2, tier=tier, group=form, solver="kissat")
    h.rec_limit = 1
    h.heavy = True
    return h


def gen_float(form, t, tier):
    """floats: membership/length against the real-number bound, elements by repeated addition in the same precision"""
    crate, relp, fxn, inclusive, stepped = FILES[form]
    var = TY_VARIANT[t]
    b = ["let a: %s = kani::any(); let e: %s = kani::any();" % (t, t)]
    b.append("let s: %s = %s;" % (t, "kani::any()" if stepped else "1.0"))
    b.append("kani::assume(a.is_finite() && e.is_finite() && s.is_finite());")
    b.append("kani::assume(a >= -1000.0 && a <= 1000.0 && e >= -1000.0 && e <= 1000.0 && s >= 0.25 && s <= 1000.0);")
    # expected terms by repeated addition, at most CAP of them, and the (CAP+1)-th must already be outside
    cmp_ = "<=" if inclusive else "<"
    b.append("let mut exp: [%s; %d] = [0.0; %d]; let mut n: usize = 0; let mut cur = a; let mut open = true;" % (t, CAP + 1, CAP + 1))
    for k in range(CAP + 1):
        b.append("if open && cur %s e { exp[%d] = cur; n += 1; cur = cur + s; } else { open = false; }" % (cmp_, k))
    b.append("kani::assume(n >= 1 && n <= %d);" % CAP)
    args = "Value::%s(Ref::new(a)), %sValue::%s(Ref::new(e))" % (var, ("Value::%s(Ref::new(s)), " % var) if stepped else "", var)
    b.append("kani::cover!(n == 3, \"VP:reached-call\");")
    b.append("match %s(%s) {" % (fxn, args))
    b.append("  Err(err) => { forget(err); assert!(false, \"VP:rejected-buildable-range\"); }")
    b.append("  Ok(f) => {")
    b.append("    f.solve();")
    b.append("    let v = f.out();")
    b.append("    " + extract(t))
    b.append("    assert!(rows == 1 && cols == n, \"VP:wrong-length\");")
    b.append("    let mut ok = true;")
    for i_ in range(CAP):
        b.append("    if %d < cols && %d < n { if rd(%d).to_bits() != exp[%d].to_bits() { ok = false; } }" % (i_, i_, i_, i_))
    b.append("    assert!(ok, \"VP:wrong-element\");")
    b.append("    kani::cover!(true, \"VP:reached\");")
    b.append("    forget(v); forget(f);")
    b.append("  }")
    b.append("}")
    h = H("c15_%s_%s_accept" % (form, t), "    " + "\n    ".join(b), (crate, relp), domain="accept", key="%s/%s/accept" % (form, t),
             desc="%s on %s, start/end in [-1000,1000], step in [0.25,1000]: the vector holds exactly the terms a, a+s, ... that are %s end"
                  % (fxn, t, "<=" if inclusive else "<"),
             functions=["%s (machines/range/%s)" % (fxn, relp)], bounds="finite values in [-1000, 1000], 1..%d terms" % CAP,
             unwind=CAP + 2, tier=tier, group=form, solver="kissat")
    h.rec_limit = 1
    h.heavy = True
    return h


def plan(tier, seed):
    hs = []
    ints = ["u8", "i8", "i16", "u16", "i32", "u32", "i64", "u64"]
    for form in FILES:
        qk = ints[seed % 2]          # u8 or i8 in quick, rotating
        for t in ints:
            q = "quick" if t in (qk, "i64" if FILES[form][4] else qk) else "thorough"
            hs.append(gen_int(form, t, "accept", q))
            hs.append(gen_int(form, t, "reject", "quick" if t == qk else "thorough"))
        hs.append(gen_float(form, "f64", "quick"))
        hs.append(gen_float(form, "f32", "thorough"))
    return {
        "harnesses": hs,
        "explanation": "Kani/CBMC over the private range dispatch functions impl_range_{exclusive,inclusive,increment_exclusive,increment_inclusive}_fxn "
                       "(size computation + allocation) and the fill kernels Range*Scalar::solve, with start, step and end symbolic",
        "bounds": "mathematical length <= %d (so that the fill loops unwind); integers: all start/end/step values of the kind with that length; "
                  "floats: finite values in [-1000,1000], step >= 0.25; kinds u8..u64, i8..i64, f32, f64" % CAP,
        "outside": ["ranges longer than %d elements (so the size computation is only exercised where the length is small: overflow of "
                    "`to - from` for far-apart bounds is outside)" % CAP, "i128/u128 (no wider oracle type)", "negative float steps",
                    "the NativeFunctionCompiler wrappers (MutableReference unwrapping)", "range syntax -> dispatch call in expressions.rs"],
        "caps": {"quick_timeout": 900, "thorough_timeout": 2400},
    }
