"""C15 - ranges are the arithmetic progressions they denote.

The element count is computed only inside the private dispatch functions impl_range_*_fxn, so everything here is a
dispatch-level (L2) harness inside the harness copy of mech-range: start / step / end are symbolic scalars of one kind,
the oracle is the progression a, a+s, a+2s, ... computed in the harness in a wider type, the mathematical length is
capped (<= 4) so that the fill loops unwind.
"""
from ..model import H
from .common import *

FILES = {
    "excl": ("range", "src/exclusive.rs", "impl_range_exclusive_fxn", False, False),
    "incl": ("range", "src/inclusive.rs", "impl_range_inclusive_fxn", True, False),
    "excl_step": ("range", "src/exclusive_increment.rs", "impl_range_increment_exclusive_fxn", False, True),
    "incl_step": ("range", "src/inclusive_increment.rs", "impl_range_increment_inclusive_fxn", True, True),
}
CAP = 4
WIDE = {"i8": "i32", "i16": "i32", "i32": "i64", "i64": "i128", "u8": "i32", "u16": "i32", "u32": "i64", "u64": "i128"}


def extract(ot):
    """loop-free inspection of the result: rows, cols and rd(k)"""
    from .c03 import extract as c03_extract
    return c03_extract(ot, "")


def gen_int(form, t, domain, tier, small=False):
    """domain: accept (ascending, step > 0) | accept_desc (step < 0, signed stepped forms only) | reject (no term)

    The oracle is division-free: the mathematical length n is a fresh symbolic value in 1..CAP constrained by
    `start + (n-1)*step` still inside the bound and `start + n*step` already outside (in a wider integer type), so the
    only division in the query is the implementation's own."""
    crate, relp, fxn, inclusive, stepped = FILES[form]
    w = WIDE[t]
    var = TY_VARIANT[t]
    b = ["let a: %s = kani::any(); let e: %s = kani::any();" % (t, t)]
    if stepped:
        b.append("let s: %s = kani::any();" % t)
    else:
        b.append("let s: %s = 1;" % t)
    b.append("let (aw, ew, sw) = (a as %s, e as %s, s as %s);" % (w, w, w))
    if small:
        # quick-tier variant: a quick command is stopped after 900 s including the cold build; with all 8-bit values symbolic the stepped
        # harnesses need 500-800 s of kissat each.  Bounds and step restricted to a small window (still symbolic, still every relation
        # between start, step and end: dividing / non-dividing steps, ends on and off the grid, both directions)
        b.append("kani::assume(aw >= -20 && aw <= 40 && ew >= -20 && ew <= 40 && sw >= -9 && sw <= 9);")
    args = "Value::%s(ac.clone()), %sValue::%s(ec.clone())" % (var, ("Value::%s(sc.clone()), " % var) if stepped else "", var)
    b.append("let ac = Ref::new(a); let ec = Ref::new(e); let sc = Ref::new(s);")
    if domain in ("accept", "accept_desc"):
        up = domain == "accept"
        b.append("let n: usize = kani::any(); kani::assume(n >= 1 && n <= %d);" % CAP)
        b.append("let km1: %s = %s;" % (w, " else ".join(["if n == %d { %s }" % (k, "0" if k == 1 else "%d * sw" % (k - 1)) for k in range(1, CAP)] + ["{ %d * sw }" % (CAP - 1)])))
        b.append("let last = aw + km1; let next = last + sw;")
        if up:
            b.append("kani::assume(sw > 0 && last %s ew && next %s ew);" % ("<=" if inclusive else "<", ">" if inclusive else ">="))
        else:
            b.append("kani::assume(sw < 0 && last %s ew && next %s ew);" % (">=" if inclusive else ">", "<" if inclusive else "<="))
        b.append("kani::cover!(n == %d, \"VP:reached-call\");" % CAP)
        b.append("match %s(%s) {" % (fxn, args))
        b.append("  Err(err) => { forget(err); assert!(false, \"VP:rejected-buildable-range\"); }")
        b.append("  Ok(f) => {")
        b.append("    f.solve();")
        b.append("    let v = f.out();")
        b.append("    " + extract(t))
        b.append("    assert!(rows == 1 && cols == n, \"VP:wrong-length\");")
        b.append("    let mut ok = true;")
        for i_ in range(CAP):
            b.append("    if %d < cols && %d < n { if (rd(%d) as %s) != aw + (%d as %s) * sw { ok = false; } }" % (i_, i_, i_, w, i_, w))
        b.append("    assert!(ok, \"VP:wrong-element\");")
        # re-evaluation (C19): a second solve() with unchanged inputs leaves the last element as it was
        b.append("    let last0 = if cols >= 1 { rd(cols - 1) } else { a };")
        b.append("    f.solve();")
        b.append("    let last1 = if cols >= 1 { rd(cols - 1) } else { a };")
        b.append("    assert!(last0 == last1 && *ac.borrow() == a && *ec.borrow() == e, \"VP:second-solve-differs\");")
        b.append("    kani::cover!(true, \"VP:reached\");")
        b.append("    forget(v); forget(f);")
        b.append("  }")
        b.append("}")
        desc = "%s on %s, %s progression with 1..%d terms: accepted, 1xn row vector, element i = start + i*step" % (fxn, t, "ascending" if up else "descending (negative step)", CAP)
        bounds = "start, end%s: all values of %s whose progression has 1..%d terms, step %s 0" % (", step" if stepped else "", t, CAP, ">" if up else "<")
    else:
        # nothing to build: zero step, wrong direction, empty.  Must be an error / panic, or an empty vector.
        b.append("kani::assume(sw == 0 || (sw > 0 && aw %s ew) || (sw < 0 && aw %s ew));" % (">" if inclusive else ">=", "<" if inclusive else "<="))
        b.append("kani::cover!(true, \"VP:reached-call\");")
        b.append("match %s(%s) {" % (fxn, args))
        b.append("  Err(err) => { kani::cover!(true, \"VP:rejected-err\"); forget(err); }")
        b.append("  Ok(f) => {")
        b.append("    let v = f.out();")
        b.append("    " + extract(t))
        b.append("    assert!(rows * cols == 0, \"VP:elements-for-empty-range\");")
        b.append("    forget(v); forget(f);")
        b.append("  }")
        b.append("}")
        desc = "%s on %s when the progression has no term (zero step, wrong direction, start past end): error, panic or empty vector" % (fxn, t)
        bounds = "start, end%s: all values of %s for which the progression has no term" % (", step" if stepped else "", t)
    b.append("forget(ac); forget(ec); forget(sc);")
    if small:
        bounds += "; quick-tier window: start, end in [-20, 40], step in [-9, 9]"
    h = H("c15_%s_%s_%s%s" % (form, t, domain, "_q" if small else ""), "    " + "\n    ".join(b), (crate, relp), domain="reject" if domain == "reject" else "accept",
          key="%s/%s/%s" % (form, t, domain), desc=desc,
          functions=["%s (machines/range/%s: size computation, output allocation)" % (fxn, relp), "Range*Scalar::solve/out via dyn MechFunction"],
          # (unwind CAP + 4, tried so that a result one or two elements too long reaches VP:wrong-length instead of an unwinding assertion of
          # the fill loop - seeded change C15-3 -, made the quick harnesses 70% slower and one ran out of memory: reverted; an over-long
          # result therefore shows as inconclusive (exit 2), not as a violation)
          bounds=bounds, unwind=CAP + 2, tier=tier, group=form, solver="kissat")
    h.rec_limit = 1
    h.heavy = True
    # per-kind feature slice (as in C01): under default features the dispatch function carries 12 kinds x fixed-size output forms
    h.slice = ",".join(["bool", "string", "matrixd", "vectord", "row_vectord", "functions", "compiler"] + (["u8", "i8"] if t in ("u8", "i8") else [t]) + ["range_default"])
    return h


def gen_float(form, t, tier):
    """floats: membership/length against the real-number bound, elements by repeated addition in the same precision"""
    crate, relp, fxn, inclusive, stepped = FILES[form]
    var = TY_VARIANT[t]
    b = ["let a: %s = kani::any(); let e: %s = kani::any();" % (t, t)]
    b.append("let s: %s = %s;" % (t, "kani::any()" if stepped else "1.0"))
    b.append("kani::assume(a.is_finite() && e.is_finite() && s.is_finite());")
    b.append("kani::assume(a >= -1000.0 && a <= 1000.0 && e >= -1000.0 && e <= 1000.0 && s >= 0.25 && s <= 1000.0);")
    # expected terms by repeated addition, at most CAP of them, and the (CAP+1)-th must already be outside
    cmp_ = "<=" if inclusive else "<"
    b.append("let mut exp: [%s; %d] = [0.0; %d]; let mut n: usize = 0; let mut cur = a; let mut open = true;" % (t, CAP + 1, CAP + 1))
    for k in range(CAP + 1):
        b.append("if open && cur %s e { exp[%d] = cur; n += 1; cur = cur + s; } else { open = false; }" % (cmp_, k))
    b.append("kani::assume(n >= 1 && n <= %d);" % CAP)
    args = "Value::%s(Ref::new(a)), %sValue::%s(Ref::new(e))" % (var, ("Value::%s(Ref::new(s)), " % var) if stepped else "", var)
    b.append("kani::cover!(n == 3, \"VP:reached-call\");")
    b.append("match %s(%s) {" % (fxn, args))
    b.append("  Err(err) => { forget(err); assert!(false, \"VP:rejected-buildable-range\"); }")
    b.append("  Ok(f) => {")
    b.append("    f.solve();")
    b.append("    let v = f.out();")
    b.append("    " + extract(t))
    b.append("    assert!(rows == 1 && cols == n, \"VP:wrong-length\");")
    b.append("    let mut ok = true;")
    for i_ in range(CAP):
        b.append("    if %d < cols && %d < n { if rd(%d).to_bits() != exp[%d].to_bits() { ok = false; } }" % (i_, i_, i_, i_))
    b.append("    assert!(ok, \"VP:wrong-element\");")
    b.append("    kani::cover!(true, \"VP:reached\");")
    b.append("    forget(v); forget(f);")
    b.append("  }")
    b.append("}")
    h = H("c15_%s_%s_accept" % (form, t), "    " + "\n    ".join(b), (crate, relp), domain="accept", key="%s/%s/accept" % (form, t),
             desc="%s on %s, start/end in [-1000,1000], step in [0.25,1000]: the vector holds exactly the terms a, a+s, ... that are %s end"
                  % (fxn, t, "<=" if inclusive else "<"),
             functions=["%s (machines/range/%s)" % (fxn, relp)], bounds="finite values in [-1000, 1000], 1..%d terms" % CAP,
             unwind=CAP + 2, tier=tier, group=form, solver="kissat")
    h.rec_limit = 1
    h.heavy = True
    return h


def plan(tier, seed):
    import os
    hs = []
    ints = ["u8", "i8", "i16", "u16", "i32", "u32", "i64", "u64"]
    for form in FILES:
        stepped = FILES[form][4]
        qk = ints[seed % 2]          # u8 or i8 in quick, rotating
        for t in ints:
            if stepped and t not in ("u8", "i8", "i16", "u16"):
                continue             # see "outside": the f64-computed length of the stepped forms gets no verdict for wider kinds
            # quick tier (stopped after 900 s including the cold build): the unstepped forms for an unsigned and a signed 8-bit kind, all
            # values; the stepped forms in a small window of values (`_q`, see gen_int) - the full-range stepped harnesses are thorough
            if stepped:
                hs.append(gen_int(form, t, "accept", "thorough"))
                if t == "u8":
                    hs.append(gen_int(form, t, "accept", "quick", small=True))
            else:
                hs.append(gen_int(form, t, "accept", "quick" if t in ("u8", "i8") else "thorough"))
            hs.append(gen_int(form, t, "reject", "quick" if t in ("u8", "i8") and (t == qk or not stepped) else "thorough"))
            if stepped and t.startswith("i"):
                hs.append(gen_int(form, t, "accept_desc", "thorough"))
                if t == "i8":
                    hs.append(gen_int(form, t, "accept_desc", "quick", small=True))
        if os.environ.get("VERIF_C15_FLOATS"):
            hs.append(gen_float(form, "f32", "quick"))
            hs.append(gen_float(form, "f64", "thorough"))
    return {
        "harnesses": hs,
        "explanation": "Kani/CBMC over the private range dispatch functions impl_range_{exclusive,inclusive,increment_exclusive,increment_inclusive}_fxn "
                       "(size computation + allocation) and the fill kernels Range*Scalar::solve, with start, step and end symbolic",
        "bounds": "mathematical length <= %d (so that the fill loops unwind); all start/end/step values of the kind with that length; "
                  "a..b and a..=b: u8..u64, i8..i64; stepped forms: u8, i8, u16, i16, ascending and (signed) descending" % CAP,
        "outside": ["ranges longer than %d elements (so the size computation is only exercised where the length is small: overflow of "
                    "`to - from` for far-apart bounds is outside)" % CAP, "i128/u128 (no wider oracle type)",
                    "f32/f64 ranges, and stepped ranges of the 32- and 64-bit kinds: the element count goes through a float -> usize "
                    "conversion that then sizes an allocation and bounds the fill loop; CBMC runs out of 30 GB in the propositional "
                    "reduction (toy reproduction: `vec![1.5f32; d as usize]` plus a fill loop, no verdict in 120 s).  The harness "
                    "generator is kept (VERIF_C15_FLOATS=1).  Natively observed and therefore NOT decided by this check: "
                    "`1.5..4.0` evaluates to [1.5 2.5] (length = trunc(b - a))",
                    "the NativeFunctionCompiler wrappers (MutableReference unwrapping)", "range syntax -> dispatch call in expressions.rs"],
        # all quick harnesses side by side (14 of them, < 3 GB each): the quick command must end well inside 900 s
        "caps": {"quick_timeout": 800, "thorough_timeout": 2400, "heavy_jobs": 14, "heavy_rss_gb": 8},
    }
