"""C01 - element-wise operators.

L1 (struct level): for every (operator, kind) arm found in /repo's dispatch tables and every storage-form pair of the
default configuration, build the generated function struct with symbolic cells, call its real `solve()`, and compare
every output element with the scalar Rust operator of that kind applied to the broadcast operands (operand order is part
of the formula).  Rider (C19): scribble over `out`, solve again, same result; inputs unchanged.
"""
import re
from ..model import H
from .common import *

# lib name (as in impl_fxns!) -> (crate, file, dispatch fn, arity, category)
OPS = {
    "Add": ("math", "src/ops/add.rs", "impl_add_fxn", 2, "arith"),
    "Sub": ("math", "src/ops/sub.rs", "impl_sub_fxn", 2, "arith"),
    "Mul": ("math", "src/ops/mul.rs", "impl_mul_fxn", 2, "arith"),
    "Div": ("math", "src/ops/div.rs", "impl_div_fxn", 2, "arith"),
    "Mod": ("math", "src/ops/modulus.rs", "impl_mod_fxn", 2, "arith"),
    "Pow": ("math", "src/ops/pow.rs", "impl_pow_fxn", 2, "arith"),
    "Negate": ("math", "src/ops/negate.rs", "impl_neg_fxn", 1, "arith"),
    "GT": ("compare", "src/gt.rs", "impl_gt_fxn", 2, "compare"),
    "GTE": ("compare", "src/gte.rs", "impl_gte_fxn", 2, "compare"),
    "LT": ("compare", "src/lt.rs", "impl_lt_fxn", 2, "compare"),
    "LTE": ("compare", "src/lte.rs", "impl_lte_fxn", 2, "compare"),
    "EQ": ("compare", "src/eq.rs", "impl_eq_fxn", 2, "compare"),
    "NEQ": ("compare", "src/neq.rs", "impl_neq_fxn", 2, "compare"),
    "And": ("logic", "src/and.rs", "impl_and_fxn", 2, "logic"),
    "Or": ("logic", "src/or.rs", "impl_or_fxn", 2, "logic"),
    "Xor": ("logic", "src/xor.rs", "impl_xor_fxn", 2, "logic"),
    "Not": ("logic", "src/not.rs", "impl_not_fxn", 1, "logic"),
}
SYMBOL = {"Add": "+", "Sub": "-", "Mul": "*", "Div": "/", "Mod": "%", "Pow": "^", "Negate": "-x", "GT": ">", "GTE": ">=",
          "LT": "<", "LTE": "<=", "EQ": "==", "NEQ": "!=", "And": "&&", "Or": "||", "Xor": "xor", "Not": "!"}

# the (operator, kind) arms of the pinned tree: an arm that disappears from the source is still expected (property:
# "if an operator accepts scalars of a kind ..." is about the documented operator set)
FORM_PAIRS = [("S", "S"), ("S", "RD"), ("S", "VD"), ("S", "MD"), ("RD", "S"), ("VD", "S"), ("MD", "S"), ("RD", "RD"), ("VD", "VD"),
              ("MD", "MD"), ("MD", "VD"), ("VD", "MD"), ("MD", "RD"), ("RD", "MD")]
UN_FORMS = ["S", "RD", "VD", "MD"]


def shapes_for(lf, rf, variant):
    """concrete operand shapes for a form pair.  variant 0/1 picks among the allowed sizes (seed / thorough)."""
    n = 2 if variant == 0 else 3
    md = (2, 2) if variant == 0 else (2, 3)
    if variant == 2:
        md = (3, 2)
        n = 3
    def shp(f, other_md):
        if f == "S":
            return (1, 1)
        if f == "RD":
            return (1, other_md[1] if other_md else n)
        if f == "VD":
            return (other_md[0] if other_md else n, 1)
        return md
    l = shp(lf, md if rf == "MD" and lf != "MD" else None)
    r = shp(rf, md if lf == "MD" and rf != "MD" else None)
    out = (max(l[0], r[0]), max(l[1], r[1]))
    return l, r, out


def oracle(lib, t, a, b):
    """-> (rust expr of expected element, precondition expr or None, out element type)"""
    cls = kind_class(t)
    if lib in ("Add", "Sub", "Mul"):
        op = {"Add": "+", "Sub": "-", "Mul": "*"}[lib]
        chk = {"Add": "checked_add", "Sub": "checked_sub", "Mul": "checked_mul"}[lib]
        pre = "%s.%s(%s).is_some()" % (a, chk, b) if cls == "int" else None
        return "(%s %s %s)" % (a, op, b), pre, t
    if lib == "Div":
        if cls == "int":
            return "(%s / %s)" % (a, b), "%s.checked_div(%s).is_some()" % (a, b), t
        if cls == "rational":
            return "(%s / %s)" % (a, b), "*%s.numer() != 0" % b, t
        return "(%s / %s)" % (a, b), None, t
    if lib == "Mod":
        if cls == "int":
            return "(%s %% %s)" % (a, b), "%s.checked_rem(%s).is_some()" % (a, b), t
        return "(%s %% %s)" % (a, b), None, t
    if lib == "Pow":
        if cls == "int":
            # exponent bound keeps num_traits' square-and-multiply loop short; the result must be representable
            return ("%s.checked_pow(%s as u32).unwrap()" % (a, b),
                    "(%s as u32) <= 3 && %s.checked_pow(%s as u32).is_some()" % (b, a, b), t)
        return "num_traits::Pow::pow(%s, %s)" % (a, b), None, t
    if lib in ("GT", "GTE", "LT", "LTE", "EQ", "NEQ"):
        op = {"GT": ">", "GTE": ">=", "LT": "<", "LTE": "<=", "EQ": "==", "NEQ": "!="}[lib]
        return "(%s %s %s)" % (a, op, b), None, "bool"
    if lib in ("And", "Or", "Xor"):
        op = {"And": "&&", "Or": "||", "Xor": "^"}[lib]
        return "(%s %s %s)" % (a, op, b), None, "bool"
    raise ValueError(lib)


def un_oracle(lib, t, a):
    cls = kind_class(t)
    if lib == "Negate":
        pre = "%s.checked_neg().is_some()" % a if cls == "int" else None
        return "(-%s)" % a, pre, t
    if lib == "Not":
        return "(!%s)" % a, None, t
    raise ValueError(lib)


def struct_name(lib, lf, rf, t, cat):
    if cat == "logic":
        return "%s%s%s" % (lib, lf, rf)
    return "%s%s%s::<%s>" % (lib, lf, rf, t)


def out_access(form, i, j):
    return "*o" if form == "S" else "o[(%d,%d)]" % (i, j)


def gen_bin_l1(lib, t, lf, rf, variant, tier):
    crate, relp, fxn, _, cat = OPS[lib]
    ls, rs, os_ = shapes_for(lf, rf, variant)
    nl, nr = ls[0] * ls[1], rs[0] * rs[1]
    of = "S" if (lf == "S" and rf == "S") else ("MD" if "MD" in (lf, rf) else (lf if lf != "S" else rf))
    a0, _, ot = oracle(lib, t, "x", "y")
    body = []
    body.append(sym_array(t, "l", nl))
    body.append(sym_array(t, "r", nr))
    pres, checks, checks2, unchanged = [], [], [], []
    scrib = []
    k = 0
    for j in range(os_[1]):
        for i in range(os_[0]):
            a = "l[%d]" % idx(lf, ls, i, j)
            b = "r[%d]" % idx(rf, rs, i, j)
            e, pre, _ = oracle(lib, t, a, b)
            if pre:
                pres.append(pre)
            checks.append(eq_expr(ot, out_access(of, i, j), e))
            k += 1
    if pres:
        body.append("kani::assume(%s);" % " && ".join(sorted(set(pres), key=pres.index)))
    body.append("let lc = Ref::new(%s); let rc = Ref::new(%s);" % (mk_form(lf, t, "l", ls), mk_form(rf, t, "r", rs)))
    body.append("let f = %s { lhs: lc.clone(), rhs: rc.clone(), out: Ref::new(%s) };"
                % (struct_name(lib, lf, rf, t, cat), mk_default(of, ot, os_, default_of(ot))))
    body.append("f.solve();")
    body.append("{ let o = f.out.borrow(); assert!(%s, \"VP:wrong-element\"); }" % " && ".join(checks))
    # C19 rider: whatever a previous step left in `out` must not matter, inputs are never written
    body.append(sym_stmt(ot, "junk"))
    if of == "S":
        body.append("{ let mut o = f.out.borrow_mut(); *o = junk.clone(); }")
    else:
        body.append("{ let mut o = f.out.borrow_mut(); o.fill(junk.clone()); }")
    body.append("f.solve();")
    body.append("{ let o = f.out.borrow(); assert!(%s, \"VP:resolve-differs\"); }" % " && ".join(checks))
    lchk = " && ".join(eq_expr(t, ("(*lc.borrow())" if lf == "S" else "lc.borrow()[%d]" % q), "l[%d]" % q) for q in range(nl))
    rchk = " && ".join(eq_expr(t, ("(*rc.borrow())" if rf == "S" else "rc.borrow()[%d]" % q), "r[%d]" % q) for q in range(nr))
    body.append("assert!(%s && %s, \"VP:input-modified\");" % (lchk, rchk))
    body.append("kani::cover!(true, \"VP:reached\");")
    body.append("forget(f); forget(lc); forget(rc);")
    name = "c01_l1_%s_%s_%s_%s_%dx%d" % (lib.lower(), t.lower(), lf.lower(), rf.lower(), os_[0], os_[1])
    key = "L1/%s<%s>/%s.%s" % (lib, t, lf, rf)
    return H(name, "    " + "\n    ".join(body), (crate, relp), domain="accept", key=key,
             desc="%s on %s, %s(%dx%d) %s %s(%dx%d): every output element equals the scalar operator on the broadcast operands; re-solve idempotent; inputs unchanged"
                  % (SYMBOL[lib], t, lf, ls[0], ls[1], SYMBOL[lib], rf, rs[0], rs[1]),
             functions=["%s%s%s<%s>::solve (%s/%s: impl_fxns! wiring + kernel macro)" % (lib, lf, rf, t, ws.CRATES[crate], relp)],
             bounds="lhs %dx%d, rhs %dx%d, all element values symbolic" % (ls[0], ls[1], rs[0], rs[1]),
             unwind=max(nl, nr, os_[0] * os_[1]) + 2, tier=tier, group="%s" % lib,
             assumptions=sorted(set(pres)))


def gen_un_l1(lib, t, form, variant, tier):
    crate, relp, fxn, _, cat = OPS[lib]
    n = 2 if variant == 0 else 3
    shape = {"S": (1, 1), "RD": (1, n), "VD": (n, 1), "MD": (2, 2) if variant == 0 else (2, 3)}[form]
    cnt = shape[0] * shape[1]
    body = [sym_array(t, "l", cnt)]
    pres, checks = [], []
    for j in range(shape[1]):
        for i in range(shape[0]):
            a = "l[%d]" % idx(form, shape, i, j)
            e, pre, ot = un_oracle(lib, t, a)
            if pre:
                pres.append(pre)
            checks.append(eq_expr(t, out_access(form, i, j), e))
    if pres:
        body.append("kani::assume(%s);" % " && ".join(pres))
    mat = {"RD": "RowDVector<%s>" % t, "VD": "DVector<%s>" % t, "MD": "DMatrix<%s>" % t}.get(form)
    if lib == "Negate":
        sname = "NegateS::<%s>" % t if form == "S" else "NegateV::<%s>" % mat
    else:
        sname = "NotS::<%s>" % t if form == "S" else "NotV::<%s, %s>" % (t, mat)
    body.append("let ac = Ref::new(%s);" % mk_form(form, t, "l", shape))
    body.append("let f = %s { arg: ac.clone(), out: Ref::new(%s), _marker: PhantomData::default() };"
                % (sname, mk_default(form, t, shape, default_of(t))))
    body.append("f.solve();")
    body.append("{ let o = f.out.borrow(); assert!(%s, \"VP:wrong-element\"); }" % " && ".join(checks))
    body.append(sym_stmt(t, "junk"))
    body.append("{ let mut o = f.out.borrow_mut(); %s }" % ("*o = junk;" if form == "S" else "o.fill(junk);"))
    body.append("f.solve();")
    body.append("{ let o = f.out.borrow(); assert!(%s, \"VP:resolve-differs\"); }" % " && ".join(checks))
    body.append("assert!(%s, \"VP:input-modified\");" % " && ".join(
        eq_expr(t, ("(*ac.borrow())" if form == "S" else "ac.borrow()[%d]" % q), "l[%d]" % q) for q in range(cnt)))
    body.append("kani::cover!(true, \"VP:reached\");")
    body.append("forget(f); forget(ac);")
    name = "c01_l1_%s_%s_%s_%dx%d" % (lib.lower(), t.lower(), form.lower(), shape[0], shape[1])
    return H(name, "    " + "\n    ".join(body), (crate, relp), domain="accept", key="L1/%s<%s>/%s" % (lib, t, form),
             desc="unary %s on %s %s(%dx%d)" % (SYMBOL[lib], t, form, shape[0], shape[1]),
             functions=["%s::solve (%s/%s)" % (sname, ws.CRATES[crate], relp)],
             bounds="operand %dx%d, all element values symbolic" % shape, unwind=cnt + 2, tier=tier, group=lib,
             assumptions=pres)


def arms_in_source():
    """(lib -> [rust element type]) as found in /repo right now"""
    found = {}
    for lib, (crate, relp, fxn, arity, cat) in OPS.items():
        txt = read_repo("%s/%s" % (ws.CRATES[crate], relp))
        macro = "impl_binop_match_arms" if arity == 2 else "impl_urnop_match_arms"
        kinds = []
        for libname, arms in macro_arms(txt, macro):
            if libname != lib:
                continue
            for variant, target, feat in arms:
                if variant in VARIANT_TY:
                    kinds.append(VARIANT_TY[variant])
        found[lib] = kinds
    return found


# (operator, kind) arms of the pinned tree (174); kept so that a *deleted* arm is still demanded
BASELINE = {
    "Add": INTS + FLOATS + ["R64", "C64"], "Sub": INTS + FLOATS + ["R64", "C64"], "Mul": INTS + FLOATS + ["R64", "C64"],
    "Div": INTS + FLOATS + ["R64", "C64"], "Mod": INTS + FLOATS, "Pow": ["u8", "u16", "u32", "f32", "f64"],
    "Negate": SIGNED + FLOATS + ["R64", "C64"],
    "GT": INTS + FLOATS + ["R64", "C64"], "GTE": INTS + FLOATS + ["R64", "C64"], "LT": INTS + FLOATS + ["R64", "C64"],
    "LTE": INTS + FLOATS + ["R64", "C64"],
    "EQ": ["bool"] + INTS + FLOATS + ["String", "R64", "C64"], "NEQ": ["bool"] + INTS + FLOATS + ["String", "R64", "C64"],
    "And": ["bool"], "Or": ["bool"], "Xor": ["bool"], "Not": ["bool"],
}

PRELUDE = ""

# quick tier: every operator x every form pair, with a fixed set of representative kinds always on and the remaining
# kinds rotated by VERIF_SEED
ALWAYS = {"arith": ["i16", "u8", "f64"], "compare": ["i16", "f64"], "logic": ["bool"]}


def plan(tier, seed):
    src = arms_in_source()
    hs = []
    extracted = {}
    for lib, (crate, relp, fxn, arity, cat) in OPS.items():
        kinds = list(dict.fromkeys(BASELINE[lib] + src.get(lib, [])))
        extracted[lib] = {"kinds_in_source": src.get(lib, []), "kinds_expected": kinds}
        for t in kinds:
            cls = kind_class(t)
            if cls in ("rational", "complex", "string"):
                base_tier = "thorough"
            elif t in ALWAYS[cat] or (lib == "Pow" and t == "u8") or (lib == "Negate" and t == "i16"):
                base_tier = "quick"
            else:
                base_tier = "rot"
            if arity == 2:
                for (lf, rf) in FORM_PAIRS:
                    hs.append(gen_bin_l1(lib, t, lf, rf, 0, base_tier))
                    if (lf, rf) != ("S", "S"):
                        hs.append(gen_bin_l1(lib, t, lf, rf, 1, "thorough"))
            else:
                for form in UN_FORMS:
                    hs.append(gen_un_l1(lib, t, form, 0, base_tier))
                    if form != "S":
                        hs.append(gen_un_l1(lib, t, form, 1, "thorough"))
    return {
        "harnesses": hs,
        "quick_rot_fraction": 0.08,
        "extracted": extracted,
        "explanation": "Kani/CBMC bounded model checking of the real generated operator structs (impl_fxns! wiring + kernel macros) "
                       "compiled from a scratch copy of /repo's current sources; every element value is symbolic, shapes are concrete.",
        "bounds": "operand shapes <= 3x2 / 2x3 (concrete per harness), element values: all bit patterns of the kind "
                  "(rationals: |n|<=3, 1<=d<=3; strings: one byte in a..c; integer pow exponent <= 3)",
        "outside": ["shapes larger than 3x2", "term(): operator token -> compiler object and the left fold over operands",
                    "the parser", "IEEE correctness of libm pow/fmod (oracle is the same call on the same symbolic operands)",
                    "fixed-size storage forms (off in the default configuration)"],
        "caps": {"quick_timeout": 240, "thorough_timeout": 900},
    }
