"""C01 - element-wise operators.

L1 (struct level, default features): for every (operator, kind) arm of /repo's dispatch tables and every storage-form
pair of the default configuration, build the generated function struct with symbolic cells, call its real `solve()`,
and compare every output element with the scalar Rust operator of that kind applied to the broadcast operands (operand
order is part of the formula).  Rider (C19): scribble over `out`, solve again, same result; inputs unchanged.

L2 (dispatch level, per-kind feature slice, kissat): call the private dispatch function `impl_<op>_fxn(lhs, rhs)` with
stack-built `Value`s, then the returned `Box<dyn MechFunction>`'s `solve()` and `out()`.  accept domain: every
compatible form pair must be accepted, the result must have the broadcast shape and the right elements.  reject domain:
incompatible shapes must end in `Err` or a panic (the interpreter turns panics into errors), never in a value.
"""
import re
from ..model import H
from .common import *

# lib name (as in impl_fxns!) -> (crate, file, dispatch fn, arity, category, cargo feature of the operator)
OPS = {
    "Add": ("math", "src/ops/add.rs", "impl_add_fxn", 2, "arith", "add"),
    "Sub": ("math", "src/ops/sub.rs", "impl_sub_fxn", 2, "arith", "sub"),
    "Mul": ("math", "src/ops/mul.rs", "impl_mul_fxn", 2, "arith", "mul"),
    "Div": ("math", "src/ops/div.rs", "impl_div_fxn", 2, "arith", "div"),
    "Mod": ("math", "src/ops/modulus.rs", "impl_mod_fxn", 2, "arith", "mod"),
    "Pow": ("math", "src/ops/pow.rs", "impl_pow_fxn", 2, "arith", "pow"),
    "Negate": ("math", "src/ops/negate.rs", "impl_neg_fxn", 1, "arith", "neg"),
    "GT": ("compare", "src/gt.rs", "impl_gt_fxn", 2, "compare", "gt"),
    "GTE": ("compare", "src/gte.rs", "impl_gte_fxn", 2, "compare", "gte"),
    "LT": ("compare", "src/lt.rs", "impl_lt_fxn", 2, "compare", "lt"),
    "LTE": ("compare", "src/lte.rs", "impl_lte_fxn", 2, "compare", "lte"),
    "EQ": ("compare", "src/eq.rs", "impl_eq_fxn", 2, "compare", "eq"),
    "NEQ": ("compare", "src/neq.rs", "impl_neq_fxn", 2, "compare", "neq"),
    "And": ("logic", "src/and.rs", "impl_and_fxn", 2, "logic", "and"),
    "Or": ("logic", "src/or.rs", "impl_or_fxn", 2, "logic", "or"),
    "Xor": ("logic", "src/xor.rs", "impl_xor_fxn", 2, "logic", "xor"),
    "Not": ("logic", "src/not.rs", "impl_not_fxn", 1, "logic", "not"),
}
SYMBOL = {"Add": "+", "Sub": "-", "Mul": "*", "Div": "/", "Mod": "%", "Pow": "^", "Negate": "-x", "GT": ">", "GTE": ">=",
          "LT": "<", "LTE": "<=", "EQ": "==", "NEQ": "!=", "And": "&&", "Or": "||", "Xor": "xor", "Not": "!"}
KIND_FEATURE = {"R64": "r64", "C64": "c64", "String": "string", "bool": "bool"}

FORM_PAIRS = [("S", "S"), ("S", "RD"), ("S", "VD"), ("S", "MD"), ("RD", "S"), ("VD", "S"), ("MD", "S"), ("RD", "RD"), ("VD", "VD"),
              ("MD", "MD"), ("MD", "VD"), ("VD", "MD"), ("MD", "RD"), ("RD", "MD")]
FOLD = {"sv": FORM_PAIRS[0:7], "vv": FORM_PAIRS[7:10], "mv": FORM_PAIRS[10:14]}
UN_FORMS = ["S", "RD", "VD", "MD"]
SLICE_BASE = ["bool", "string", "matrixd", "vectord", "row_vectord", "functions", "compiler"]


def shapes_for(lf, rf, variant):
    """concrete operand shapes for a form pair; variant picks among the allowed sizes"""
    # non-square matrices first: a kernel that confuses rows with columns is invisible on square operands
    n = [2, 3, 3][variant]
    md = [(2, 3), (3, 2), (2, 2)][variant]

    def shp(f, other_md):
        if f == "S":
            return (1, 1)
        if f == "RD":
            return (1, other_md[1] if other_md else n)
        if f == "VD":
            return (other_md[0] if other_md else n, 1)
        return md
    l = shp(lf, md if rf == "MD" and lf != "MD" else None)
    r = shp(rf, md if lf == "MD" and rf != "MD" else None)
    out = (max(l[0], r[0]), max(l[1], r[1]))
    return l, r, out


def out_form(lf, rf):
    return "S" if (lf == "S" and rf == "S") else ("MD" if "MD" in (lf, rf) else (lf if lf != "S" else rf))


def oracle(lib, t, a, b):
    """-> (rust expr of expected element, precondition expr or None, out element type)"""
    cls = kind_class(t)
    if lib in ("Add", "Sub", "Mul"):
        op = {"Add": "+", "Sub": "-", "Mul": "*"}[lib]
        chk = {"Add": "checked_add", "Sub": "checked_sub", "Mul": "checked_mul"}[lib]
        pre = "%s.%s(%s).is_some()" % (a, chk, b) if cls == "int" else None
        return "(%s %s %s)" % (a, op, b), pre, t
    if lib == "Div":
        if cls == "int":
            return "(%s / %s)" % (a, b), "%s.checked_div(%s).is_some()" % (a, b), t
        if cls == "rational":
            return "(%s / %s)" % (a, b), "*%s.numer() != 0" % b, t
        return "(%s / %s)" % (a, b), None, t
    if lib == "Mod":
        if cls == "int":
            return "(%s %% %s)" % (a, b), "%s.checked_rem(%s).is_some()" % (a, b), t
        return "(%s %% %s)" % (a, b), None, t
    if lib == "Pow":
        if cls == "int":
            return ("%s.checked_pow(%s as u32).unwrap()" % (a, b),
                    "(%s as u32) <= 3 && %s.checked_pow(%s as u32).is_some()" % (b, a, b), t)
        return "num_traits::Pow::pow(%s, %s)" % (a, b), None, t
    if lib in ("GT", "GTE", "LT", "LTE", "EQ", "NEQ"):
        op = {"GT": ">", "GTE": ">=", "LT": "<", "LTE": "<=", "EQ": "==", "NEQ": "!="}[lib]
        return "(%s %s %s)" % (a, op, b), None, "bool"
    if lib in ("And", "Or", "Xor"):
        op = {"And": "&&", "Or": "||", "Xor": "^"}[lib]
        return "(%s %s %s)" % (a, op, b), None, "bool"
    raise ValueError(lib)


def un_oracle(lib, t, a):
    cls = kind_class(t)
    if lib == "Negate":
        pre = "%s.checked_neg().is_some()" % a if cls == "int" else None
        return "(-%s)" % a, pre, t
    if lib == "Not":
        return "(!%s)" % a, None, t
    raise ValueError(lib)


def struct_name(lib, lf, rf, t, cat):
    if cat == "logic":
        return "%s%s%s" % (lib, lf, rf)
    return "%s%s%s::<%s>" % (lib, lf, rf, t)


def out_access(form, i, j):
    return "(*o)" if form == "S" else "o[(%d,%d)]" % (i, j)


def case_tag(lf, rf, ls, rs):
    return "%s%dx%d.%s%dx%d" % (lf.lower(), ls[0], ls[1], rf.lower(), rs[0], rs[1])


def elem_checks(lib, t, lf, rf, ls, rs, os_, of, acc):
    """acc(i,j) -> rust expr reading output element (i,j).  returns (preconditions, checks)"""
    pres, checks = [], []
    _, _, ot = oracle(lib, t, "x", "y")
    for j in range(os_[1]):
        for i in range(os_[0]):
            a = "l[%d]" % idx(lf, ls, i, j)
            b = "r[%d]" % idx(rf, rs, i, j)
            if t == "String":
                a, b = a + ".clone()", b + ".clone()"
            e, pre, _ = oracle(lib, t, a, b)
            if pre and pre not in pres:
                pres.append(pre)
            checks.append(eq_expr(ot, acc(i, j), e))
    return pres, checks, ot


def l1_case(lib, t, lf, rf, variant):
    crate, relp, fxn, _, cat, feat = OPS[lib]
    ls, rs, os_ = shapes_for(lf, rf, variant)
    nl, nr = ls[0] * ls[1], rs[0] * rs[1]
    of = out_form(lf, rf)
    tag = case_tag(lf, rf, ls, rs)
    pres, checks, ot = elem_checks(lib, t, lf, rf, ls, rs, os_, of, lambda i, j: out_access(of, i, j))
    b = [sym_array(t, "l", nl), sym_array(t, "r", nr)]
    if pres:
        b.append("kani::assume(%s);" % " && ".join(pres))
    b.append("let lc = Ref::new(%s); let rc = Ref::new(%s);" % (mk_form(lf, t, "l", ls), mk_form(rf, t, "r", rs)))
    b.append("let f = %s { lhs: lc.clone(), rhs: rc.clone(), out: Ref::new(%s) };"
             % (struct_name(lib, lf, rf, t, cat), mk_default(of, ot, os_, default_of(ot))))
    b.append("f.solve();")
    b.append("{ let o = f.out.borrow(); assert!(%s, \"VP:wrong-element:%s\"); }" % (" && ".join(checks), tag))
    b.append(sym_stmt(ot, "junk"))
    b.append("{ let mut o = f.out.borrow_mut(); %s }" % ("*o = junk.clone();" if of == "S" else "o.fill(junk.clone());"))
    b.append("f.solve();")
    b.append("{ let o = f.out.borrow(); assert!(%s, \"VP:resolve-differs:%s\"); }" % (" && ".join(checks), tag))
    lchk = " && ".join(eq_expr(t, ("(*lc.borrow())" if lf == "S" else "lc.borrow()[%d]" % q), "l[%d]" % q) for q in range(nl))
    rchk = " && ".join(eq_expr(t, ("(*rc.borrow())" if rf == "S" else "rc.borrow()[%d]" % q), "r[%d]" % q) for q in range(nr))
    b.append("assert!(%s && %s, \"VP:input-modified:%s\");" % (lchk, rchk, tag))
    b.append("kani::cover!(true, \"VP:reached:%s\");" % tag)
    b.append("forget(f); forget(lc); forget(rc);")
    return "{\n      " + "\n      ".join(b) + "\n    }", pres, max(nl, nr, os_[0] * os_[1])


def fold_cases(cases):
    """nondeterministic case selector: CBMC explores every case, one panic does not mask the others"""
    if len(cases) == 1:
        return "    " + cases[0]
    s = "    let vp_case: u8 = kani::any();\n    kani::assume((vp_case as usize) < %d);\n    match vp_case {\n" % len(cases)
    for k, c in enumerate(cases):
        s += "    %s => %s,\n" % (("%d" % k) if k < len(cases) - 1 else "_", c)
    s += "    }"
    return s


def gen_bin_l1(lib, t, lf, rf, variant, tier):
    crate, relp, fxn, _, cat, feat = OPS[lib]
    c, pres, n = l1_case(lib, t, lf, rf, variant)
    ls, rs, os_ = shapes_for(lf, rf, variant)
    name = "c01_l1_%s_%s_%s_%s_v%d" % (lib.lower(), t.lower(), lf.lower(), rf.lower(), variant)
    h = H(name, "    " + c, (crate, relp), domain="accept", key="L1/%s<%s>/%s.%s" % (lib, t, lf, rf),
          desc="%s on %s, %s(%dx%d) %s %s(%dx%d): every output element equals the scalar operator on the broadcast operands; "
               "re-solve after scribbling `out` gives the same; inputs unchanged"
               % (SYMBOL[lib], t, lf, ls[0], ls[1], SYMBOL[lib], rf, rs[0], rs[1]),
          functions=["%s%s%s<%s>::solve (%s/%s: impl_fxns! wiring + kernel macro)" % (lib, lf, rf, t, ws.CRATES[crate], relp)],
          bounds="lhs %dx%d, rhs %dx%d, all element values symbolic" % (ls[0], ls[1], rs[0], rs[1]), unwind=n + 2, tier=tier,
          group="L1/" + lib, assumptions=sorted(set(pres)))
    h.slice = l1_slice(crate)
    return h


def gen_un_l1(lib, t, form, variant, tier):
    crate, relp, fxn, _, cat, feat = OPS[lib]
    n = [2, 3, 3][variant]
    shape = {"S": (1, 1), "RD": (1, n), "VD": (n, 1), "MD": [(2, 3), (3, 2), (2, 2)][variant]}[form]
    cnt = shape[0] * shape[1]
    tag = "%s%dx%d" % (form.lower(), shape[0], shape[1])
    b = [sym_array(t, "l", cnt)]
    pres, checks = [], []
    for j in range(shape[1]):
        for i in range(shape[0]):
            a = "l[%d]" % idx(form, shape, i, j)
            e, pre, ot = un_oracle(lib, t, a)
            if pre:
                pres.append(pre)
            checks.append(eq_expr(t, out_access(form, i, j), e))
    if pres:
        b.append("kani::assume(%s);" % " && ".join(pres))
    mat = {"RD": "RowDVector<%s>" % t, "VD": "DVector<%s>" % t, "MD": "DMatrix<%s>" % t}.get(form)
    if lib == "Negate":
        sname = "NegateS::<%s>" % t if form == "S" else "NegateV::<%s>" % mat
    else:
        sname = "NotS::<%s>" % t if form == "S" else "NotV::<%s, %s>" % (t, mat)
    b.append("let ac = Ref::new(%s);" % mk_form(form, t, "l", shape))
    b.append("let f = %s { arg: ac.clone(), out: Ref::new(%s), _marker: PhantomData::default() };"
             % (sname, mk_default(form, t, shape, default_of(t))))
    b.append("f.solve();")
    b.append("{ let o = f.out.borrow(); assert!(%s, \"VP:wrong-element:%s\"); }" % (" && ".join(checks), tag))
    b.append(sym_stmt(t, "junk"))
    b.append("{ let mut o = f.out.borrow_mut(); %s }" % ("*o = junk;" if form == "S" else "o.fill(junk);"))
    b.append("f.solve();")
    b.append("{ let o = f.out.borrow(); assert!(%s, \"VP:resolve-differs:%s\"); }" % (" && ".join(checks), tag))
    b.append("assert!(%s, \"VP:input-modified:%s\");" % (" && ".join(
        eq_expr(t, ("(*ac.borrow())" if form == "S" else "ac.borrow()[%d]" % q), "l[%d]" % q) for q in range(cnt)), tag))
    b.append("kani::cover!(true, \"VP:reached:%s\");" % tag)
    b.append("forget(f); forget(ac);")
    name = "c01_l1_%s_%s_%s_v%d" % (lib.lower(), t.lower(), form.lower(), variant)
    h = H(name, "    " + "\n    ".join(b), (crate, relp), domain="accept", key="L1/%s<%s>/%s" % (lib, t, form),
          desc="unary %s on %s %s(%dx%d)" % (SYMBOL[lib], t, form, shape[0], shape[1]),
          functions=["%s::solve (%s/%s)" % (sname, ws.CRATES[crate], relp)],
          bounds="operand %dx%d, all element values symbolic" % shape, unwind=cnt + 2, tier=tier, group="L1/" + lib,
          assumptions=pres)
    h.slice = l1_slice(crate)
    return h


_L1_SLICE = {}


def l1_slice(crate):
    """default features of the crate minus the unrelated function families of mech-math (trig, bessel, ...): they
    share no code with the operator modules and cost two minutes of build time.  Any parsing problem -> default."""
    if crate != "math":
        return None
    if crate in _L1_SLICE:
        return _L1_SLICE[crate]
    res = None
    try:
        cargo = read_repo("machines/math/Cargo.toml")
        m = re.search(r"^default\s*=\s*\[(.*?)\]", cargo, re.M | re.S)
        feats = re.findall(r"\"([^\"]+)\"", m.group(1))
        md = re.search(r"^math_default\s*=\s*\[(.*?)\]", cargo, re.M | re.S)
        fam = re.findall(r"\"([^\"]+)\"", md.group(1))
        if "math_default" in feats and "ops_default" in fam and "ops_assign_default" in fam:
            feats = [f for f in feats if f != "math_default"] + ["ops_default", "ops_assign_default"]
            res = ",".join(feats)
    except Exception:
        res = None
    _L1_SLICE[crate] = res
    return res


# ------------------------------------------------------------------------------------------------------------- L2
def out_extract(ot, of, tag):
    """rust: from `v: Value` produce (rows, cols, data: Vec<ot> in column-major order) without using repo accessors"""
    var = TY_VARIANT[ot]
    if of == "S":
        return ("let (rows, cols, data): (usize, usize, Vec<%s>) = match &v { Value::%s(o) => (1, 1, vec![o.borrow().clone()]), "
                "Value::Matrix%s(m) => match m { Matrix::DMatrix(o) => { let o = o.borrow(); (o.nrows(), o.ncols(), o.iter().cloned().collect()) }, "
                "_ => { assert!(false, \"VP:wrong-result-kind:%s\"); (0, 0, Vec::new()) } }, "
                "_ => { assert!(false, \"VP:wrong-result-kind:%s\"); (0, 0, Vec::new()) } };" % (ot, var, var, tag, tag))
    return ("let (rows, cols, data): (usize, usize, Vec<%s>) = match &v { Value::Matrix%s(m) => match m { "
            "Matrix::DVector(o) => { let o = o.borrow(); (o.nrows(), o.ncols(), o.iter().cloned().collect()) }, "
            "Matrix::RowDVector(o) => { let o = o.borrow(); (o.nrows(), o.ncols(), o.iter().cloned().collect()) }, "
            "Matrix::DMatrix(o) => { let o = o.borrow(); (o.nrows(), o.ncols(), o.iter().cloned().collect()) }, "
            "_ => { assert!(false, \"VP:wrong-result-kind:%s\"); (0, 0, Vec::new()) } }, "
            "_ => { assert!(false, \"VP:wrong-result-kind:%s\"); (0, 0, Vec::new()) } };" % (ot, var, tag, tag))


HEAVY_FORMS = {("MD", "VD"), ("VD", "MD"), ("MD", "RD"), ("RD", "MD")}


def l2_accept_case(lib, t, lf, rf, variant):
    crate, relp, fxn, arity, cat, feat = OPS[lib]
    # the matrix-with-vector kernels iterate nalgebra column/row views; together with the Value plumbing of the dispatch
    # function the query exceeds 11 GB.  For these four form pairs L2 decides acceptance and the result shape only (no
    # solve()); the kernels themselves are decided at L1.
    no_solve = (lf, rf) in HEAVY_FORMS
    ls, rs, os_ = shapes_for(lf, rf, variant)
    nl, nr = ls[0] * ls[1], rs[0] * rs[1]
    of = out_form(lf, rf)
    tag = case_tag(lf, rf, ls, rs)
    pres, checks, ot = elem_checks(lib, t, lf, rf, ls, rs, os_, of, lambda i, j: "data[%d]" % (i + j * os_[0]))
    b = [sym_array(t, "l", nl), sym_array(t, "r", nr)]
    if pres:
        b.append("kani::assume(%s);" % " && ".join(pres))
    b.append("let lc = Ref::new(%s); let rc = Ref::new(%s);" % (mk_form(lf, t, "l", ls), mk_form(rf, t, "r", rs)))
    b.append("let lv = %s; let rv = %s;" % (value_of(lf, t, "lc.clone()"), value_of(rf, t, "rc.clone()")))
    b.append("kani::cover!(true, \"VP:reached-call:%s\");" % tag)
    b.append("match %s(lv, rv) {" % fxn)
    b.append("  Err(e) => { forget(e); assert!(false, \"VP:rejected-compatible:%s\"); }" % tag)
    b.append("  Ok(f) => {")
    if not no_solve:
        b.append("    f.solve();")
    b.append("    let v = f.out();")
    b.append("    " + out_extract(ot, of, tag))
    b.append("    assert!(rows == %d && cols == %d, \"VP:wrong-shape:%s\");" % (os_[0], os_[1], tag))
    if not no_solve:
        b.append("    assert!(data.len() == %d && %s, \"VP:wrong-element:%s\");" % (os_[0] * os_[1], " && ".join(checks), tag))
    lchk = " && ".join(eq_expr(t, ("(*lc.borrow())" if lf == "S" else "lc.borrow()[%d]" % q), "l[%d]" % q) for q in range(nl))
    rchk = " && ".join(eq_expr(t, ("(*rc.borrow())" if rf == "S" else "rc.borrow()[%d]" % q), "r[%d]" % q) for q in range(nr))
    b.append("    assert!(%s && %s, \"VP:input-modified:%s\");" % (lchk, rchk, tag))
    b.append("    kani::cover!(true, \"VP:reached:%s\");" % tag)
    b.append("    forget(data); forget(v); forget(f);")
    b.append("  }")
    b.append("}")
    b.append("forget(lc); forget(rc);")
    return "{\n      " + "\n      ".join(b) + "\n    }", pres, max(nl, nr, os_[0] * os_[1])


REJECT_SHAPES = [
    # (lhs form, lhs shape, rhs form, rhs shape)
    ("VD", (2, 1), "VD", (3, 1)), ("VD", (3, 1), "VD", (2, 1)),
    ("RD", (1, 2), "RD", (1, 3)), ("RD", (1, 3), "RD", (1, 2)),
    ("MD", (2, 2), "MD", (2, 3)), ("MD", (2, 3), "MD", (2, 2)), ("MD", (2, 2), "MD", (3, 2)), ("MD", (3, 2), "MD", (2, 3)),
    ("MD", (2, 2), "VD", (3, 1)), ("VD", (3, 1), "MD", (2, 2)), ("MD", (2, 2), "RD", (1, 3)), ("RD", (1, 3), "MD", (2, 2)),
    ("RD", (1, 2), "VD", (2, 1)), ("VD", (2, 1), "RD", (1, 2)),
    # a vector of the wrong orientation whose length equals the matrix's OTHER dimension (and exceeds the one it would be applied
    # along): a shape guard that only compares "length == rows or length == cols" accepts these, and the broadcast kernels then
    # read a prefix of the vector (seeded change C01-2)
    ("MD", (2, 3), "VD", (3, 1)), ("VD", (3, 1), "MD", (2, 3)), ("MD", (3, 2), "RD", (1, 3)), ("RD", (1, 3), "MD", (3, 2)),
]


def l2_reject_case(lib, t, lf, ls, rf, rs):
    crate, relp, fxn, arity, cat, feat = OPS[lib]
    nl, nr = ls[0] * ls[1], rs[0] * rs[1]
    tag = case_tag(lf, rf, ls, rs)
    b = [sym_array(t, "l", nl), sym_array(t, "r", nr)]
    b.append("let lv = %s; let rv = %s;" % (value_of(lf, t, "Ref::new(%s)" % mk_form(lf, t, "l", ls)),
                                           value_of(rf, t, "Ref::new(%s)" % mk_form(rf, t, "r", rs))))
    b.append("kani::cover!(true, \"VP:reached-call:%s\");" % tag)
    b.append("match %s(lv, rv) {" % fxn)
    b.append("  Err(e) => { kani::cover!(true, \"VP:rejected-err:%s\"); forget(e); }" % tag)
    b.append("  Ok(f) => {")
    b.append("    f.solve();")
    b.append("    let v = f.out();")
    b.append("    assert!(false, \"VP:accepted-incompatible-shapes:%s\");" % tag)
    b.append("    forget(v); forget(f);")
    b.append("  }")
    b.append("}")
    return "{\n      " + "\n      ".join(b) + "\n    }", max(nl, nr)


def file_features(crate, relp):
    txt = read_repo("%s/%s" % (ws.CRATES[crate], relp))
    cargo = read_repo("%s/Cargo.toml" % ws.CRATES[crate])
    feats = set(re.findall(r"^([A-Za-z0-9_]+)\s*=\s*\[", cargo, re.M))
    used = set()
    # file-level cfgs only (the kind arms inside the dispatch macro invocation carry the kind feature as a literal)
    for m in re.finditer(r"#\[cfg\(([^\]]*)\)\]", txt):
        for f in re.findall(r"feature\s*=\s*\"(\w+)\"", m.group(1)):
            if f in feats:
                used.add(f)
    return used


def slice_for(lib, t):
    crate, relp, fxn, arity, cat, feat = OPS[lib]
    fs = list(SLICE_BASE)
    fs.append(KIND_FEATURE.get(t, t))
    fs.append(feat)
    for f in sorted(file_features(crate, relp)):
        if f not in ("matrix",):
            fs.append(f)
    if lib == "Negate":
        fs.append("neg")
    return ",".join(dict.fromkeys(fs))


def gen_bin_l2_accept(lib, t, lf, rf, variant, tier):
    crate, relp, fxn, arity, cat, feat = OPS[lib]
    c, pres, n = l2_accept_case(lib, t, lf, rf, variant)
    ls, rs, os_ = shapes_for(lf, rf, variant)
    h = H("c01_l2_%s_%s_%s_%s_v%d" % (lib.lower(), t.lower(), lf.lower(), rf.lower(), variant), "    " + c, (crate, relp),
          domain="accept", key="L2/%s<%s>/accept/%s.%s" % (lib, t, lf, rf),
          desc="dispatch %s(lhs,rhs) on %s, %s(%dx%d) %s %s(%dx%d): accepted, broadcast shape %dx%d, every element = scalar operator, inputs unchanged"
               % (fxn, t, lf, ls[0], ls[1], SYMBOL[lib], rf, rs[0], rs[1], os_[0], os_[1]),
          functions=["%s (%s/%s: impl_binop_match_arms! dispatch + output allocation)" % (fxn, ws.CRATES[crate], relp),
                     "%s%s%s<%s>::solve/out via dyn MechFunction" % (lib, lf, rf, t)],
          bounds="lhs %dx%d, rhs %dx%d, all element values symbolic; feature slice %s" % (ls[0], ls[1], rs[0], rs[1], slice_for(lib, t)),
          unwind=n + 2, tier=tier, group="L2/" + lib, assumptions=sorted(set(pres)), solver="kissat")
    h.slice = slice_for(lib, t)
    h.heavy = True
    return h


def gen_bin_l2_reject(lib, t, k, tier):
    crate, relp, fxn, arity, cat, feat = OPS[lib]
    (lf, ls, rf, rs) = REJECT_SHAPES[k]
    c, n = l2_reject_case(lib, t, lf, ls, rf, rs)
    h = H("c01_l2_%s_%s_reject_%s" % (lib.lower(), t.lower(), case_tag(lf, rf, ls, rs).replace(".", "_")), "    " + c, (crate, relp),
          domain="reject", key="L2/%s<%s>/reject/%s" % (lib, t, case_tag(lf, rf, ls, rs)),
          desc="dispatch %s(lhs,rhs) on %s with incompatible shapes %s(%dx%d), %s(%dx%d): Err or panic, never a value"
               % (fxn, t, lf, ls[0], ls[1], rf, rs[0], rs[1]),
          functions=["%s (%s/%s)" % (fxn, ws.CRATES[crate], relp)],
          bounds="feature slice " + slice_for(lib, t), unwind=n + 2, tier=tier, group="L2/" + lib, solver="kissat")
    h.slice = slice_for(lib, t)
    return h


def arms_in_source():
    found = {}
    for lib, (crate, relp, fxn, arity, cat, feat) in OPS.items():
        txt = read_repo("%s/%s" % (ws.CRATES[crate], relp))
        macro = "impl_binop_match_arms" if arity == 2 else "impl_urnop_match_arms"
        kinds = []
        for libname, arms in macro_arms(txt, macro):
            if libname != lib:
                continue
            for variant, target, feat_ in arms:
                if variant in VARIANT_TY:
                    kinds.append(VARIANT_TY[variant])
        found[lib] = kinds
    return found


# (operator, kind) arms of the pinned tree (174); kept so that a *deleted* arm is still demanded
BASELINE = {
    "Add": INTS + FLOATS + ["R64", "C64"], "Sub": INTS + FLOATS + ["R64", "C64"], "Mul": INTS + FLOATS + ["R64", "C64"],
    "Div": INTS + FLOATS + ["R64", "C64"], "Mod": INTS + FLOATS, "Pow": ["u8", "u16", "u32", "f32", "f64"],
    "Negate": SIGNED + FLOATS + ["R64", "C64"],
    "GT": INTS + FLOATS + ["R64", "C64"], "GTE": INTS + FLOATS + ["R64", "C64"], "LT": INTS + FLOATS + ["R64", "C64"],
    "LTE": INTS + FLOATS + ["R64", "C64"],
    "EQ": ["bool"] + INTS + FLOATS + ["String", "R64", "C64"], "NEQ": ["bool"] + INTS + FLOATS + ["String", "R64", "C64"],
    "And": ["bool"], "Or": ["bool"], "Xor": ["bool"], "Not": ["bool"],
}
QUICK_F64 = ("GT", "GTE", "LT", "LTE", "EQ", "NEQ")     # f64 adders: 550 s for one harness when measured - they stay seed-rotated
L2_QUICK_FORMS = [("S", "S"), ("S", "VD"), ("VD", "VD"), ("MD", "MD"), ("MD", "VD"), ("RD", "MD")]
L2_KINDS = {"arith": ["i16", "f64", "u8"], "compare": ["i16", "f64"], "logic": ["bool"]}


# form pairs that together reach each of the 8 kernel macros of an operator once
KERNEL_FORMS = [("S", "S"), ("S", "VD"), ("RD", "S"), ("VD", "VD"), ("MD", "VD"), ("VD", "MD"), ("MD", "RD"), ("RD", "MD")]


def plan(tier, seed):
    src = arms_in_source()
    hs = []
    extracted = {}
    libs = list(OPS.keys())
    bin_libs = [l for l in libs if OPS[l][3] == 2]
    l1_full = bin_libs[seed % len(bin_libs)]          # this operator gets all 14 form pairs in quick
    l2_quick = bin_libs[(seed * 7 + 1) % len(bin_libs)]  # this operator's dispatch function gets the quick-tier L2 treatment
    for lib, (crate, relp, fxn, arity, cat, feat) in OPS.items():
        kinds = list(dict.fromkeys(BASELINE[lib] + src.get(lib, [])))
        extracted[lib] = {"kinds_in_source": src.get(lib, []), "kinds_expected": kinds}
        simple = [k for k in kinds if kind_class(k) in ("int", "float", "bool")]
        if lib in ("Pow", "Mod"):
            simple = [k for k in simple if kind_class(k) != "float"]      # see the `off` note below: no element oracle for float ^ and %
        if lib in ("Mul", "Div"):
            simple = [k for k in simple if k != "f64"]                    # off (solver time), see below
        qk = simple[seed % len(simple)]               # the quick-tier kind of this operator rotates with the seed
        if lib in ("Div", "Mod", "Pow"):
            # symbolic-by-symbolic division: 16-bit operands needed 470 s per kernel harness at VERIF_SEED=1 (quick is stopped at 900 s);
            # the quick kind of / % ^ is an 8-bit kind, the wider kinds are thorough
            s8 = [k for k in simple if k in ("u8", "i8")] or simple[:1]
            qk = s8[seed % len(s8)]
        for t in kinds:
            if arity == 2:
                for (lf, rf) in FORM_PAIRS:
                    q = "quick" if (t == qk and ((lf, rf) in KERNEL_FORMS or lib == l1_full)) else "thorough"
                    # IEEE corner cases (NaN, -0.0, infinities) are where an "equivalent" rewrite of a comparison or of +/- differs from the
                    # operator (seeded change C01-3: `s <= m` rewritten as `!(m < s)`): the f64 kernels of the comparison operators run in
                    # quick whatever kind the seed rotates to (f64 arithmetic kernels stay seed-rotated: solver time)
                    if t == "f64" and (lf, rf) in KERNEL_FORMS and lib in QUICK_F64:
                        q = "quick"
                    hs.append(gen_bin_l1(lib, t, lf, rf, 0, q))
                    if (lf, rf) != ("S", "S") and kind_class(t) in ("int", "float", "bool"):
                        hs.append(gen_bin_l1(lib, t, lf, rf, 1, "thorough"))
                    if lib in ("Mul", "Div") and t in ("f64", "C64"):
                        # symbolic-by-symbolic 64-bit float multipliers / dividers over all bit patterns: one 2-element f32 multiplication harness
                        # needed 620 s, the f64 ones were not seen to finish (measured 2026-09-25).  Kept out of the registered tiers so that a
                        # thorough run does not end inconclusive; f32 `*` and `/` (same kernels, same wiring) are in the thorough tier
                        for h_ in hs[-(2 if (lf, rf) != ("S", "S") else 1):]:
                            h_.tier = "off"
                            h_.off_reason = "f64 / complex multiplication and division over all bit patterns: no verdict within the budget (f32: 620 s per harness)"
                    if lib in ("Pow", "Mod") and kind_class(t) == "float":
                        # powf / fmod are nondeterministic stubs in CBMC (each call returns an arbitrary value), so the element-wise oracle - the
                        # same libm call on the same operands - does not agree with the kernel's own call: measured `VP:wrong-element` on the
                        # unchanged tree for pow<f32> (2026-09-25).  IEEE correctness of float ^ and % is outside the claim (section C01);
                        # the harnesses are kept for the record only
                        for h_ in hs[-(2 if (lf, rf) != ("S", "S") else 1):]:
                            h_.tier = "off"
                            h_.off_reason = "float ^ / %: libm powf/fmod are nondeterministic stubs in CBMC, the element oracle cannot be stated (false alarm when run)"
            else:
                for form in UN_FORMS:
                    hs.append(gen_un_l1(lib, t, form, 0, "quick" if t == qk else "thorough"))
                    if form != "S":
                        hs.append(gen_un_l1(lib, t, form, 1, "thorough"))
        # L2: dispatch function under a per-kind slice
        if arity == 2:
            l2k = [k for k in L2_KINDS[cat] if k in kinds] or kinds[:1]
            for n, t in enumerate(l2k):
                # A quick command is stopped after 900 s INCLUDING the cold build of the scratch workspace, and every L2 feature slice is a
                # separate build of mech-core + the operator crate.  Quick therefore runs the L2 level for one operator and one slice only
                # (`*`, i16: the dispatch macro impl_binop_match_arms! is shared by all binary operators): 6 accept forms + 6 reject
                # shapes.  Everything else at L2 is in the thorough tier.
                q = "thorough"
                for (lf, rf) in FORM_PAIRS:
                    aq = "quick" if (lib == "Mul" and n == 0 and (lf, rf) in L2_QUICK_FORMS) else q
                    hs.append(gen_bin_l2_accept(lib, t, lf, rf, 0, aq))
                for k in range(len(REJECT_SHAPES)):
                    # the equal-form shape mismatches (vd/vd, rd/rd, md/md: the first four REJECT_SHAPES and one md/md case) are in
                    # the quick tier for one operator per crate whose kernels zip the operands (nalgebra's own shape asserts, which
                    # guard + and -, do not help there): reverting the shape checks of the dispatch arms must be noticed by `quick`
                    rq = q
                    if n == 0 and lib == "Mul" and k in (0, 2, 3, 4, 14, 17):
                        rq = "quick"
                    hs.append(gen_bin_l2_reject(lib, t, k, rq))
                if n > 0:
                    # further L2 kinds of the same dispatch function: same generator, kept out of the registered tiers for wall-clock
                    # reasons (28 harnesses of ~1 min per operator and kind); VERIF_ALL=1 runs them
                    for h_ in hs[-(len(FORM_PAIRS) + len(REJECT_SHAPES)):]:
                        h_.tier = "off"
                        h_.off_reason = "not part of the registered tiers (wall-clock budget): further element kind of an L2 family that is run for its first kind"
    return {
        "harnesses": hs,
        "extracted": extracted,
        "explanation": "Kani/CBMC bounded model checking of (L1) the generated operator structs - impl_fxns! wiring + kernel macros - and "
                       "(L2) the private dispatch functions impl_<op>_fxn with their output allocation, all compiled from a scratch copy "
                       "of /repo's current sources; every element value is symbolic, shapes are concrete; L2 runs under a per-kind cargo "
                       "feature slice with kissat",
        "bounds": "operand shapes <= 3x2 / 2x3 (concrete per case), element values: all bit patterns of the kind "
                  "(rationals: |n|<=3, 1<=d<=3; strings: one byte in a..c; integer pow exponent <= 3); L2 for kinds "
                  + str(L2_KINDS) + "; quick tier: per operator one kind (rotated by seed) on the 8 form pairs that reach every kernel "
                  "macro, all 14 form pairs for one rotating operator, L2 (14 accept + 14 reject cases) for one rotating operator",
        "outside": ["shapes larger than 3x2", "term(): operator token -> compiler object and the left fold over operands",
                    "the NativeFunctionCompiler wrapper (MutableReference unwrapping, convert_to fall-back for mixed kinds)",
                    "the parser", "IEEE correctness of libm pow/fmod (oracle is the same call on the same symbolic operands)",
                    "fixed-size storage forms (off in the default configuration)", "L2 for kinds outside the L2 list",
                    "L2 for the unary operators"],
        "caps": {"quick_timeout": 800, "thorough_timeout": 1800, "heavy_jobs": 14, "heavy_rss_gb": 6},     # the 12 quick L2 harnesses side by side (900 s stop)
    }
