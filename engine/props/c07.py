"""C07 - bytecode files: checksum gate, hostile input, round trip, burst detection.

All harnesses live in the harness copy of mech-core, opened at src/program/program.rs (private loader functions).
`crc32fast::hash` reaches `cpuid` inline assembly, which Kani rejects, so it is stubbed - differently per obligation:
  gate / hostile input : returns an arbitrary u32 (the loader must be safe whatever the checksum says)
  round trip           : a deterministic byte sum (writer and reader call the same function on the same bytes)
  burst detection      : crc32fast's own portable table implementation (Hasher::internal_new_baseline)
"""
from ..model import H
from .common import *

WHERE = ("core", "src/program/program.rs")

PRELUDE = '''
  pub static mut VP_CRC: u32 = 0;
  pub fn vp_crc_nondet(_b: &[u8]) -> u32 { unsafe { VP_CRC } }
  #[derive(Debug, Clone)] pub struct VpIoErr;
  impl MechErrorKind for VpIoErr { fn name(&self) -> &str { "io" } fn message(&self) -> String { String::new() } }
  pub fn vp_from_io(e: std::io::Error) -> MechError { forget(e); MechError::new(VpIoErr, None) }
  // HashMap/HashSet semantics do not depend on the hasher keys: fixed keys are behaviour-preserving for every map
  // operation and keep the getrandom loop out of the query
  pub fn vp_random_state() -> ::std::hash::RandomState { unsafe { ::std::mem::transmute::<[u64; 2], ::std::hash::RandomState>([0x0123_4567_89ab_cdefu64, 0x0fed_cba9_8765_4321u64]) } }
  // TypeSection::get_or_intern memoises kind -> id in a HashMap<ValueKind, TypeId>; hashing the niche-encoded recursive
  // ValueKind cannot be executed symbolically (no verdict in 15 min).  Same function without the memo table: encode, reuse the
  // entry with identical (tag, payload) if there is one, else append.
  pub fn vp_get_or_intern(ts: &mut TypeSection, vk: &ValueKind) -> TypeId {
    let (tag, bytes) = encode_value_kind(ts, vk);
    let mut i = 0;
    while i < ts.entries.len() { if ts.entries[i].tag == tag && ts.entries[i].bytes == bytes { return i as u32; } i += 1; }
    let id = ts.entries.len() as u32;
    ts.entries.push(TypeEntry { tag, bytes });
    id
  }
  // degenerate hasher for every HashMap/HashSet the loader and the writer use: map semantics do not depend on hash values
  pub fn vp_dh_write(_h: &mut ::std::hash::DefaultHasher, _b: &[u8]) {}
  pub fn vp_dh_write_str(_h: &mut ::std::hash::DefaultHasher, _s: &str) {}
  pub fn vp_dh_finish(_h: &::std::hash::DefaultHasher) -> u64 { 0 }
  pub fn vp_crc_sum(b: &[u8]) -> u32 { let mut s: u32 = 0x1234_5678; let mut i = 0; while i < b.len() { s = s.wrapping_mul(31).wrapping_add(b[i] as u32); i += 1; } s }
  pub fn vp_crc_real(b: &[u8]) -> u32 { let mut h = crc32fast::Hasher::internal_new_baseline(0, 0); h.update(b); h.finalize() }
  pub fn vp_header(const_count: u32, tbl_off: u64, tbl_len: u64, blob_off: u64, blob_len: u64, instr_off: u64, instr_len: u64,
                   feature_off: u64, types_off: u64, symbols_off: u64, symbols_len: u64, dict_off: u64, dict_len: u64) -> ByteCodeHeader {
    ByteCodeHeader { magic: *b"MECH", version: 1, mech_ver: kani::any(), flags: kani::any(), reg_count: kani::any(), instr_count: kani::any(),
      feature_count: kani::any(), feature_off, types_count: kani::any(), types_off, const_count, const_tbl_off: tbl_off, const_tbl_len: tbl_len,
      const_blob_off: blob_off, const_blob_len: blob_len, symbols_len, symbols_off, instr_off, instr_len, dict_off, dict_len, reserved: kani::any() }
  }
'''

STUB_RS = "#[kani::stub(::std::hash::RandomState::new, vp_random_state)]"
STUB_VKH = "#[kani::stub(<crate::ValueKind as ::std::hash::Hash>::hash, vp_vk_hash)]"
STUB_INTERN = "#[kani::stub(crate::TypeSection::get_or_intern, vp_get_or_intern)]"
STUB_IOERR = "#[kani::stub(<crate::MechError as ::std::convert::From<::std::io::Error>>::from, vp_from_io)]"
STUB_NONDET = "#[kani::stub(crc32fast::hash, vp_crc_nondet)]"
STUB_SUM = "#[kani::stub(crc32fast::hash, vp_crc_sum)]"
STUB_REAL = "#[kani::stub(crc32fast::hash, vp_crc_real)]"
FNS_LOADER = ["load_program_from_bytes", "verify_crc_trailer_seek", "load_program_from_reader", "ByteCodeHeader::read_from",
              "parse_const_entries", "decode_instructions (src/core/src/program/program.rs)"]


def mk(name, body, domain, key, desc, fns, bounds, unwind, tier, attrs, nonterm=False):
    h = H(name, "    " + "\n    ".join(body), WHERE, domain=domain, key=key, desc=desc, functions=fns, bounds=bounds, unwind=unwind, tier=tier)
    from .c14 import STUB_DH
    h.attrs = attrs + [STUB_IOERR, STUB_RS] + STUB_DH
    h.rec_limit = 1      # no nested ValueKind / Value occurs in these harnesses
    h.stub_loc = True
    if nonterm:
        h.nonterm_is_violation = True
    return h


def gen_gate(n, tier):
    b = ["let bytes: [u8; %d] = kani::any();" % n, "let c: u32 = kani::any();", "unsafe { VP_CRC = c; }",
         "let trailer = u32::from_le_bytes([bytes[%d], bytes[%d], bytes[%d], bytes[%d]]);" % (n - 4, n - 3, n - 2, n - 1),
         "let mut cur = Cursor::new(&bytes[..]);",
         "let r = verify_crc_trailer_seek(&mut cur, %d);" % n,
         "assert!(r.is_ok() == (c == trailer), \"VP:gate-disagrees-with-checksum\");",
         "let full = ParsedProgram::from_bytes(&bytes[..]);",
         "if c != trailer { assert!(full.is_err(), \"VP:accepted-despite-checksum-mismatch\"); }",
         "kani::cover!(c != trailer, \"VP:reached-mismatch\");", "kani::cover!(c == trailer, \"VP:reached-match\");",
         "forget(r); forget(full);"]
    return mk("c07_gate_%d" % n, b, "accept", "gate/%d" % n,
              "any %d-byte file: the checksum gate accepts iff the computed checksum equals the trailer; nothing is parsed when it differs; no panic" % n,
              FNS_LOADER, "file of %d symbolic bytes; checksum value symbolic" % n, n + 2, tier, [STUB_NONDET])


def gen_short(tier):
    b = ["let n: usize = kani::any(); kani::assume(n < 4);", "let bytes: [u8; 3] = kani::any();",
         "let r = ParsedProgram::from_bytes(&bytes[..n]);", "assert!(r.is_err(), \"VP:accepted-file-shorter-than-trailer\");",
         "kani::cover!(n == 3, \"VP:reached\");", "forget(r);"]
    return mk("c07_short_file", b, "accept", "short", "files of 0..3 bytes are rejected with an error, no panic", FNS_LOADER,
              "0..3 symbolic bytes", 6, tier, [STUB_NONDET])


# byte offsets of the header fields (ByteCodeHeader::write_to order)
HDR = {"magic": (0, 4), "version": (4, 1), "mech_ver": (5, 2), "flags": (7, 2), "reg_count": (9, 4), "instr_count": (13, 4), "feature_count": (17, 4),
       "feature_off": (21, 8), "types_count": (29, 4), "types_off": (33, 8), "const_count": (41, 4), "const_tbl_off": (45, 8), "const_tbl_len": (53, 8),
       "const_blob_off": (61, 8), "const_blob_len": (69, 8), "symbols_len": (77, 8), "symbols_off": (85, 8), "instr_off": (93, 8), "instr_len": (101, 8),
       "dict_off": (109, 8), "dict_len": (117, 8), "reserved": (125, 4)}
HDR_SIZE = 129


def gen_loader_nopanic(variant, live, tier, body_n=12, unwind=6):
    """the whole file is a stack array; every byte is symbolic except the magic and the header fields named in `zero`
    (so that symbolic execution keeps the dead sections dead).  `live` = header fields left symbolic.  A live section
    offset is either 0 (section absent) or points behind the header (>= 129, any value up to u64::MAX): sections placed
    inside the header run the same code on more bytes, which only adds loop iterations."""
    total = HDR_SIZE + body_n + 4
    b = ["let mut file: [u8; %d] = kani::any();" % total,
         "file[0] = b'M'; file[1] = b'E'; file[2] = b'C'; file[3] = b'H';"]
    zero = [f for f in HDR if f not in live and f not in ("magic", "version", "mech_ver", "flags", "reg_count", "instr_count", "feature_count",
                                                           "types_count", "reserved")]
    for f in zero:
        off, n = HDR[f]
        b.append(" ".join("file[%d] = 0;" % (off + k) for k in range(n)))
    for f in live:
        if f.endswith("_off"):
            off, n = HDR[f]
            b.append("{ let o = u64::from_le_bytes([%s]); kani::assume(o == 0 || o >= %d); }" % (", ".join("file[%d]" % (off + k) for k in range(n)), HDR_SIZE))
    b += ["let c: u32 = kani::any(); unsafe { VP_CRC = c; }",
          "kani::cover!(true, \"VP:reached-call\");",
          "let r = ParsedProgram::from_bytes(&file[..]);",
          "kani::cover!(r.is_ok(), \"VP:reached-ok\"); kani::cover!(r.is_err(), \"VP:reached-err\");",
          "forget(r);"]
    return mk("c07_loader_nopanic_%s" % variant, b, "accept", "loader/%s" % variant,
              "loader on a %d-byte file whose header fields {%s} and all %d body bytes are symbolic (other section offsets/lengths zero): any panic, "
              "arithmetic overflow or out-of-bounds access is a violation" % (total, ", ".join(live), body_n),
              FNS_LOADER, "file = %d-byte header + %d symbolic bytes + trailer; live section offsets 0 or >= %d" % (HDR_SIZE, body_n, HDR_SIZE), unwind, tier, [STUB_NONDET])


def gen_decode_instr(n, tier):
    """loop-free harness body: the only loops left are decode_instructions' own (one iteration per instruction, at least 5
    bytes each, and the 8-byte look-ahead of the loop head) and the VarArg operand loops, so the unwind bound is derived
    from n instead of being n itself"""
    m = max(1, n // 5)
    va = max(0, (n - 17) // 4)
    b = ["let bytes: [u8; %d] = kani::any();" % n,
         "kani::cover!(true, \"VP:reached-call\");",
         "let r = decode_instructions(Cursor::new(&bytes[..]));",
         "match &r {", "  Ok(instrs) => {",
         "    assert!(instrs.len() <= %d, \"VP:more-instructions-than-bytes\");" % m,
         "    let mut out = Cursor::new(Vec::<u8>::new());"]
    for k in range(m):
        b.append("    if instrs.len() > %d { instrs[%d].write_to(&mut out).unwrap(); }" % (k, k))
    b += ["    let out = out.into_inner();",
          "    assert!(out.len() == %d, \"VP:reencoded-length-differs\");" % n,
          "    if out.len() == %d { assert!(%s, \"VP:reencoded-bytes-differ\"); }" % (n, " && ".join("out[%d] == bytes[%d]" % (k, k) for k in range(n))),
          "    kani::cover!(instrs.len() >= 1, \"VP:reached-decoded\");", "    forget(out);", "  }",
          "  Err(_) => { kani::cover!(true, \"VP:reached-err\"); }", "}", "forget(r);"]
    return mk("c07_decode_instructions_%d" % n, b, "accept", "decode_instructions/%d" % n,
              "decode_instructions on any byte string of length %d: no panic; when it decodes, re-encoding the instructions gives the same bytes" % n,
              ["decode_instructions", "DecodedInstr::write_to"], "instruction stream of exactly %d symbolic bytes (<= %d instructions, VarArg <= %d operands)" % (n, m, va),
              max(m, va) + 2, tier, [])


def gen_decode_instr_nopanic(n, tier):
    """hostile instruction stream, totality only (the re-encoding obligation is in decode_instructions_<n> and, per kind, in
    the instr_roundtrip harnesses)"""
    m = max(1, n // 5)
    va = max(0, (n - 17) // 4)
    b = ["let bytes: [u8; %d] = kani::any();" % n,
         "kani::cover!(true, \"VP:reached-call\");",
         "let r = decode_instructions(Cursor::new(&bytes[..]));",
         "match &r {", "  Ok(instrs) => { assert!(instrs.len() <= %d, \"VP:more-instructions-than-bytes\"); kani::cover!(instrs.len() >= %d, \"VP:reached-decoded\"); }" % (m, 2 if n >= 18 else 1),
         "  Err(_) => { kani::cover!(true, \"VP:reached-err\"); }", "}", "forget(r);"]
    return mk("c07_decode_instructions_total_%d" % n, b, "accept", "decode_instructions-total/%d" % n,
              "decode_instructions on any byte string of length %d: returns Ok or Err, no panic, no out-of-bounds read" % n,
              ["decode_instructions"], "instruction stream of exactly %d symbolic bytes" % n, max(m, va) + 2, tier, [])


def vararg_spec(n):
    """reference encoding of a VarArg instruction, built on the stack (so that the operand count stays a constant for
    symbolic execution): opcode 0x60, fxn_id u64 LE, dst u32 LE, count u32 LE, operands u32 LE"""
    L = 17 + 4 * n
    b = ["let ops: [u32; %d] = kani::any(); let fxn_id: u64 = kani::any(); let dst: u32 = kani::any();" % n,
         "let mut spec = [0u8; %d]; spec[0] = 0x60;" % L,
         "{ let f = fxn_id.to_le_bytes(); %s }" % " ".join("spec[%d] = f[%d];" % (1 + k, k) for k in range(8)),
         "{ let d = dst.to_le_bytes(); %s }" % " ".join("spec[%d] = d[%d];" % (9 + k, k) for k in range(4)),
         "{ let c = (%du32).to_le_bytes(); %s }" % (n, " ".join("spec[%d] = c[%d];" % (13 + k, k) for k in range(4)))]
    for k in range(n):
        b.append("{ let o = ops[%d].to_le_bytes(); %s }" % (k, " ".join("spec[%d] = o[%d];" % (17 + 4 * k + q, q) for q in range(4))))
    return b, L


def gen_vararg_reader(n, tier):
    b, L = vararg_spec(n)
    b += ["kani::cover!(true, \"VP:reached-call\");",
          "match decode_instructions(Cursor::new(&spec[..])) {",
          "  Err(e) => { forget(e); assert!(false, \"VP:emitted-instruction-rejected\"); }",
          "  Ok(v) => {",
          "    assert!(v.len() == 1, \"VP:instruction-count-differs\");",
          "    match &v[0] { DecodedInstr::VarArg { fxn_id: f2, dst: d2, args } => {",
          "        assert!(*f2 == fxn_id && *d2 == dst && args.len() == %d, \"VP:instruction-differs\");" % n,
          "        if args.len() == %d { assert!(%s, \"VP:instruction-operands-differ\"); } }," % (n, " && ".join("args[%d] == ops[%d]" % (k, k) for k in range(n))),
          "      _ => { assert!(false, \"VP:instruction-kind-differs\"); } }",
          "    kani::cover!(true, \"VP:reached\"); forget(v);", "  }", "}"]
    return mk("c07_vararg_decode_%d" % n, b, "accept", "instr-decode/VarArg/%d" % n,
              "the reference encoding of a VarArg instruction with %d symbolic operands (what horzcat/vertcat of %d elements compile to) decodes to "
              "exactly that instruction" % (n, n), ["decode_instructions"], "%d operands, all operand values, function id and destination symbolic" % n,
              n + 3, tier, [])


def gen_vararg_writer(n, tier):
    b, L = vararg_spec(n)
    b += ["let ins = EncodedInstr::VarArg { fxn_id, dst, args: ops.to_vec() };",
          "let mut buf = Cursor::new(Vec::<u8>::new()); ins.write_to(&mut buf).unwrap(); let bytes = buf.into_inner();",
          "assert!(bytes.len() == %d && ins.byte_len() == %d, \"VP:byte-len-differs-from-written-length\");" % (L, L),
          "if bytes.len() == %d { assert!(%s, \"VP:written-bytes-differ-from-format\"); }" % (L, " && ".join("bytes[%d] == spec[%d]" % (k, k) for k in range(L))),
          "kani::cover!(true, \"VP:reached\");", "forget(bytes); forget(ins);"]
    return mk("c07_vararg_encode_%d" % n, b, "accept", "instr-encode/VarArg/%d" % n,
              "EncodedInstr::VarArg with %d symbolic operands is written as opcode, function id, destination, count, operands (little endian); byte_len "
              "agrees" % n, ["EncodedInstr::write_to/byte_len"], "%d operands" % n, n + 3, tier, [])


def gen_instr_kind(kind, ctor, pat, eqs, nbytes, tier):
    b = ["let fxn_id: u64 = kani::any(); let r: [u32; 5] = kani::any();",
         "let ins = %s;" % ctor,
         "let mut buf = Cursor::new(Vec::<u8>::new()); ins.write_to(&mut buf).unwrap(); let bytes = buf.into_inner();",
         "assert!(bytes.len() as u64 == ins.byte_len() && bytes.len() == %d, \"VP:byte-len-differs-from-written-length\");" % nbytes,
         "kani::cover!(true, \"VP:reached-call\");",
         "match decode_instructions(Cursor::new(&bytes[..])) {",
         "  Err(e) => { forget(e); assert!(false, \"VP:emitted-instruction-rejected\"); }",
         "  Ok(v) => { assert!(v.len() == 1, \"VP:instruction-count-differs\");",
         "    match &v[0] { %s => { assert!(%s, \"VP:instruction-differs\"); }, _ => { assert!(false, \"VP:instruction-kind-differs\"); } }" % (pat, eqs),
         "    kani::cover!(true, \"VP:reached\"); forget(v); }", "}", "forget(bytes); forget(ins);"]
    return mk("c07_instr_roundtrip_%s" % kind.lower(), b, "accept", "instr-roundtrip/%s" % kind,
              "a single %s instruction with symbolic fields: write_to then decode_instructions gives the same instruction" % kind,
              ["EncodedInstr::write_to/byte_len", "decode_instructions"], "all field values", 8, tier, [])


INSTR_KINDS = [
    ("ConstLoad", "EncodedInstr::ConstLoad { dst: r[0], const_id: r[1] }", "DecodedInstr::ConstLoad { dst, const_id }", "*dst == r[0] && *const_id == r[1]", 9, "quick"),
    ("NullOp", "EncodedInstr::NullOp { fxn_id, dst: r[0] }", "DecodedInstr::NullOp { fxn_id: f2, dst }", "*f2 == fxn_id && *dst == r[0]", 13, "thorough"),
    ("UnOp", "EncodedInstr::UnOp { fxn_id, dst: r[0], src: r[1] }", "DecodedInstr::UnOp { fxn_id: f2, dst, src }", "*f2 == fxn_id && *dst == r[0] && *src == r[1]", 17, "quick"),
    ("BinOp", "EncodedInstr::BinOp { fxn_id, dst: r[0], lhs: r[1], rhs: r[2] }", "DecodedInstr::BinOp { fxn_id: f2, dst, lhs, rhs }",
     "*f2 == fxn_id && *dst == r[0] && *lhs == r[1] && *rhs == r[2]", 21, "quick"),
    ("TernOp", "EncodedInstr::TernOp { fxn_id, dst: r[0], a: r[1], b: r[2], c: r[3] }", "DecodedInstr::TernOp { fxn_id: f2, dst, a, b, c }",
     "*f2 == fxn_id && *dst == r[0] && *a == r[1] && *b == r[2] && *c == r[3]", 25, "quick"),
    ("QuadOp", "EncodedInstr::QuadOp { fxn_id, dst: r[0], a: r[1], b: r[2], c: r[3], d: r[4] }", "DecodedInstr::QuadOp { fxn_id: f2, dst, a, b, c, d }",
     "*f2 == fxn_id && *dst == r[0] && *a == r[1] && *b == r[2] && *c == r[3] && *d == r[4]", 29, "quick"),
    ("Ret", "EncodedInstr::Ret { src: r[0] }", "DecodedInstr::Ret { src }", "*src == r[0]", 5, "thorough"),
]


def gen_parse_const_entries(tier):
    b = ["let bytes: [u8; 48] = kani::any();", "let len: usize = kani::any(); kani::assume(len <= 48);",
         "let count: usize = kani::any(); kani::assume(count <= 3);",
         "let r = parse_const_entries(Cursor::new(&bytes[..len]), count);",
         "if let Ok(v) = &r { assert!(v.len() == count && count * 24 <= len, \"VP:entries-beyond-table\"); }",
         "kani::cover!(r.is_ok() && count == 2, \"VP:reached-ok\"); kani::cover!(r.is_err(), \"VP:reached-err\");", "forget(r);"]
    return mk("c07_parse_const_entries", b, "accept", "parse_const_entries",
              "parse_const_entries on <= 48 symbolic bytes and count <= 3: no panic, never more entries than the table holds",
              ["parse_const_entries"], "table <= 48 bytes, count <= 3 (the count is not capped by the loader: see loader/consts)", 6, tier, [])


SCALAR_TAGS = [("U8", 1), ("U16", 2), ("U32", 4), ("U64", 8), ("U128", 16), ("I8", 1), ("I16", 2), ("I32", 4), ("I64", 8), ("I128", 16),
               ("F32", 4), ("F64", 8), ("C64", 16), ("R64", 16), ("Bool", 1), ("Index", 8)]


def gen_decode_const(tagname, size, tier, bad_id=None):
    blob = "let blob: [u8; 16] = kani::any();"
    if tagname == "R64":
        # Ratio::new reduces with a gcd loop whose trip count grows with the magnitudes: numerator and denominator are small
        # (all signs, zero included), sign-extended to the 8 + 8 bytes of the encoding
        blob = ("let rn: i8 = kani::any(); let rd: i8 = kani::any(); kani::assume(rn >= -8 && rn <= 8 && rd >= -8 && rd <= 8); "
                "let mut blob = [0u8; 16]; { let a = (rn as i64).to_le_bytes(); let c = (rd as i64).to_le_bytes(); let mut k = 0; while k < 8 { blob[k] = a[k]; blob[8 + k] = c[k]; k += 1; } }")
    b = [blob,
         # concrete ids: with a symbolic index symbolic execution cannot see that `entries.get(tid)` is None and walks every decoder
         "let tid: u32 = %s;" % (bad_id if bad_id else "0"),
         "let e = ParsedConstEntry { type_id: tid, enc: kani::any(), align: kani::any(), flags: kani::any(), reserved: kani::any(), offset: kani::any(), length: kani::any() };",
         "let mut types = TypeSection::new();",
         "types.entries.push(TypeEntry { tag: TypeTag::%s, bytes: Vec::new() });" % tagname,
         "let p = ParsedProgram { header: vp_header(1, 0, 0, 0, 0, 0, 0, 0, 0, 0, 0, 0, 0), features: Vec::new(), types, const_entries: vec![e],",
         "  const_blob: blob.to_vec(), instr_bytes: Vec::new(), symbols: HashMap::new(), mutable_symbols: HashSet::new(), instrs: Vec::new(), dictionary: HashMap::new() };",
         "kani::cover!(true, \"VP:reached-call\");",
         "let r = p.decode_const_entries();",
         ("assert!(r.is_err(), \"VP:constant-with-missing-type-accepted\"); kani::cover!(true, \"VP:reached-err\");" if bad_id else
          "kani::cover!(r.is_ok(), \"VP:reached-ok\"); kani::cover!(r.is_err(), \"VP:reached-err\");"),
         "forget(r); forget(p);"]
    if bad_id:
        return mk("c07_decode_const_missing_type_%s" % ("max" if "MAX" in bad_id else bad_id), b, "accept", "decode_const/missing-type/%s" % bad_id,
                  "decode_const_entries on one symbolic constant entry whose type id names no entry of the type section: an error, no panic",
                  ["ParsedProgram::decode_const_entries"], "1 entry, 1 type entry, type id %s" % bad_id, 20, tier, [])
    return mk("c07_decode_const_%s" % tagname.lower(), b, "accept", "decode_const/%s" % tagname,
              "decode_const_entries on one symbolic constant entry (encoding, alignment, offset, length; type id 0) whose type section holds a single "
              "%s type, over a 16-byte symbolic blob: no panic" % tagname,
              ["ParsedProgram::decode_const_entries", "check_alignment"], "1 entry, 1 type entry, blob 16 bytes", 20, tier, [])


def gen_decode_const_roundtrip(t, tier):
    """value -> compile_const -> decode_const_entries gives the same value back (bitwise for floats).  The constant entries and
    the blob are what the real CompileConst / CompileCtx::compile_const produced; the type section is written by hand (ids 0 and
    1) so that the type interner's id bookkeeping, decided nowhere here, stays out of the query."""
    var = TY_VARIANT[t]
    if t == "String":
        # one 2-byte UTF-8 character followed by one ASCII byte: byte length 3, character count 2
        sym = ("let c0: u8 = kani::any(); let c1: u8 = kani::any(); let c2: u8 = kani::any(); "
               "kani::assume(c0 >= 0xC2 && c0 <= 0xDF && c1 >= 0x80 && c1 <= 0xBF && c2 >= 0x20 && c2 < 0x7F); "
               "let x: String = { let mut v = String::new(); v.push(char::from_u32((((c0 & 0x1F) as u32) << 6) | ((c1 & 0x3F) as u32)).unwrap()); v.push(c2 as char); v };")
        check = "let y = y.borrow(); let yb = y.as_bytes(); assert!(yb.len() == 3 && yb[0] == c0 && yb[1] == c1 && yb[2] == c2, \"VP:decoded-constant-differs\");"
    else:
        sym = sym_stmt(t, "x")
        check = "let y = y.borrow().clone(); assert!(%s, \"VP:decoded-constant-differs\");" % eq_expr(t, "y", "x")
    b = [sym, "let mut ctx = CompileCtx::new();", "let pad: u8 = kani::any();",
         "let id0 = pad.compile_const(&mut ctx).unwrap();", "let id = x.compile_const(&mut ctx).unwrap();",
         "assert!(id0 == 0 && id == 1 && ctx.const_entries.len() == 2, \"VP:constant-ids-wrong\");",
         "let e0 = { let c = &ctx.const_entries[0]; ParsedConstEntry { type_id: 0, enc: c.enc as u8, align: c.align, flags: c.flags, reserved: 0, offset: c.offset, length: c.length } };",
         "let e1 = { let c = &ctx.const_entries[1]; ParsedConstEntry { type_id: 1, enc: c.enc as u8, align: c.align, flags: c.flags, reserved: 0, offset: c.offset, length: c.length } };",
         "let mut types = TypeSection::new();",
         "types.entries.push(TypeEntry { tag: TypeTag::U8, bytes: Vec::new() }); types.entries.push(TypeEntry { tag: TypeTag::%s, bytes: Vec::new() });" % var,
         "let p = ParsedProgram { header: vp_header(2, 0, 0, 0, 0, 0, 0, 0, 0, 0, 0, 0, 0), features: Vec::new(), types, const_entries: vec![e0, e1],",
         "  const_blob: ctx.const_blob.clone(), instr_bytes: Vec::new(), symbols: HashMap::new(), mutable_symbols: HashSet::new(), instrs: Vec::new(), dictionary: HashMap::new() };",
         "let r = p.decode_const_entries();",
         "match &r {", "  Ok(vals) => {", "    assert!(vals.len() == 2, \"VP:constant-count-differs\");",
         "    match &vals[1] { Value::%s(y) => { %s }, _ => { assert!(false, \"VP:decoded-constant-kind-differs\"); } }" % (var, check),
         "    match &vals[0] { Value::U8(y) => { assert!(*y.borrow() == pad, \"VP:decoded-constant-differs\"); }, _ => { assert!(false, \"VP:decoded-constant-kind-differs\"); } }",
         "    kani::cover!(true, \"VP:reached\");", "  }",
         "  Err(_) => { assert!(false, \"VP:emitted-constant-rejected\"); }", "}", "forget(r); forget(p); forget(ctx);"]
    return mk("c07_const_roundtrip_%s" % t.lower(), b, "accept", "const-roundtrip/%s" % var,
              "a u8 constant followed by a symbolic %s constant: compile_const (alignment padding) then decode_const_entries returns both values exactly" % t,
              ["CompileConst::compile_const for %s" % t, "CompileCtx::compile_const", "align_up", "ParsedProgram::decode_const_entries"],
              "2 constants; all values of the kind" + ("; strings: one 2-byte UTF-8 character + one ASCII character" if t == "String" else ""), 20, tier, [STUB_INTERN])


def gen_encode_string(tier):
    """encoder half of the String constant codec (the decoder half runs UTF-8 validation and gets no verdict): the blob entry of a
    string constant is its BYTE length as u32 LE followed by its UTF-8 bytes - what String::from_le / decode_const_entries read"""
    b = ["let c0: u8 = kani::any(); let c1: u8 = kani::any(); let c2: u8 = kani::any();",
         "kani::assume(c0 >= 0xC2 && c0 <= 0xDF && c1 >= 0x80 && c1 <= 0xBF && c2 >= 0x20 && c2 < 0x7F);",
         "let x: String = unsafe { String::from_utf8_unchecked(vec![c0, c1, c2]) };      // valid UTF-8 by the assumption above",
         "let mut ctx = CompileCtx::new();",
         "let id = x.compile_const(&mut ctx).unwrap();",
         "assert!(id == 0 && ctx.const_entries.len() == 1, \"VP:constant-ids-wrong\");",
         "let off = ctx.const_entries[0].offset as usize; let len = ctx.const_entries[0].length as usize;",
         "assert!(len == 7 && off + len == ctx.const_blob.len(), \"VP:constant-entry-length-differs-from-payload\");",
         "if len == 7 && off + len == ctx.const_blob.len() { let p = &ctx.const_blob[off..off + len];",
         "  assert!(p[0] == 3 && p[1] == 0 && p[2] == 0 && p[3] == 0, \"VP:string-length-prefix-is-not-the-byte-length\");",
         "  assert!(p[4] == c0 && p[5] == c1 && p[6] == c2, \"VP:string-payload-differs\"); }",
         "kani::cover!(true, \"VP:reached\");", "forget(ctx); forget(x);"]
    return mk("c07_const_encode_string", b, "accept", "const-encode/String",
              "a string constant made of one 2-byte UTF-8 character and one ASCII character is written as byte length (u32 LE) + UTF-8 bytes",
              ["CompileConst::compile_const for String", "CompileCtx::compile_const"], "strings of 2 characters / 3 bytes, all such characters", 12, tier, [STUB_INTERN])


def gen_roundtrip(tier):
    b = ["let mut ctx = CompileCtx::new();", "let x: u8 = kani::any(); let y: i64 = kani::any();",
         "let c0 = x.compile_const(&mut ctx).unwrap(); let c1 = y.compile_const(&mut ctx).unwrap();",
         "let r0: u32 = kani::any(); let r1: u32 = kani::any(); let r2: u32 = kani::any(); let f: u64 = kani::any();",
         "ctx.emit_const_load(r0, c0); ctx.emit_const_load(r1, c1); ctx.emit_binop(f, r2, r0, r1);",
         "ctx.next_reg = kani::any();",
         "let bytes = ctx.compile().unwrap();",
         "kani::cover!(true, \"VP:reached-call\");",
         "match ParsedProgram::from_bytes(&bytes[..]) {",
         "  Err(_) => { assert!(false, \"VP:emitted-file-rejected\"); }",
         "  Ok(p) => {",
         "    assert!(p.header.reg_count == ctx.next_reg && p.header.instr_count == 3 && p.header.const_count == 2, \"VP:header-differs\");",
         "    assert!(p.instrs.len() == 3, \"VP:instruction-count-differs\");",
         "    assert!(p.instrs[0] == DecodedInstr::ConstLoad { dst: r0, const_id: c0 } && p.instrs[1] == DecodedInstr::ConstLoad { dst: r1, const_id: c1 } "
         "&& p.instrs[2] == DecodedInstr::BinOp { fxn_id: f, dst: r2, lhs: r0, rhs: r1 }, \"VP:instructions-differ\");",
         "    assert!(p.const_entries.len() == 2 && p.const_blob.len() == ctx.const_blob.len(), \"VP:constants-differ\");",
         "    let again = p.to_bytes().unwrap();",
         "    assert!(again.len() == bytes.len(), \"VP:reencoded-length-differs\");",
         "    let mut k = 0; let mut same = true; while k < bytes.len() { if k < again.len() && again[k] != bytes[k] { same = false; } k += 1; }",
         "    assert!(same, \"VP:reencoded-bytes-differ\");",
         "    kani::cover!(true, \"VP:reached\");", "    forget(again); forget(p);", "  }", "}", "forget(bytes); forget(ctx);"]
    return mk("c07_roundtrip_2c3i", b, "accept", "roundtrip/2c3i",
              "CompileCtx with two symbolic constants and three instructions with symbolic registers and function id: compile() -> from_bytes -> "
              "same header counts, instructions, constants; to_bytes() reproduces the emitted bytes",
              ["CompileCtx::compile", "ByteCodeHeader::write_to/read_from", "TypeSection::write_to", "ConstEntry::write_to", "EncodedInstr::write_to",
               "load_program_from_bytes", "ParsedProgram::to_bytes"],
              "2 constants, 3 instructions, no symbols; checksum = deterministic byte sum on both sides", 260, tier, [STUB_SUM, STUB_INTERN])


def gen_symbols(n, tier):
    b = ["let mut ctx = CompileCtx::new();"]
    for i in range(n):
        b.append("ctx.symbols.insert(%d, %d);" % (1000 + i, i))
    b += ["let bytes = ctx.compile().unwrap();", "kani::cover!(true, \"VP:reached-call\");",
          "match ParsedProgram::from_bytes(&bytes[..]) {",
          "  Err(_) => { assert!(false, \"VP:emitted-file-rejected\"); }",
          "  Ok(p) => { assert!(p.symbols.len() == %d, \"VP:symbol-count-differs\"); kani::cover!(true, \"VP:reached\"); forget(p); }" % n,
          "}", "forget(bytes); forget(ctx);"]
    return mk("c07_roundtrip_symbols_%d" % n, b, "accept", "roundtrip/symbols/%d" % n,
              "a program with %d symbols (concrete ids) loads again with %d symbols" % (n, n),
              ["CompileCtx::compile (symbol section: 13 bytes per entry)", "load_program_from_reader (symbol loop)"],
              "%d symbols; concrete ids and registers (HashMap with symbolic keys is out of reach)" % n, 13 * n + 200, tier, [STUB_SUM])


def gen_burst(n, tier):
    """n data bytes + 4 trailer bytes; a burst of <= 32 consecutive bits anywhere in the n+4 bytes"""
    total = n + 4
    b = ["let data: [u8; %d] = kani::any();" % n,
         "let crc = vp_crc_real(&data[..]);",
         "let mut file: [u8; %d] = [0u8; %d];" % (total, total),
         "let mut i = 0; while i < %d { file[i] = data[i]; i += 1; }" % n,
         "let t = crc.to_le_bytes(); file[%d] = t[0]; file[%d] = t[1]; file[%d] = t[2]; file[%d] = t[3];" % (n, n + 1, n + 2, n + 3),
         "{ let mut cur = Cursor::new(&file[..]); let r0 = verify_crc_trailer_seek(&mut cur, %d); assert!(r0.is_ok(), \"VP:emitted-file-rejected\"); forget(r0); }" % total,
         "let start: usize = kani::any(); kani::assume(start < %d * 8);" % total,
         "let pattern: u32 = kani::any(); kani::assume(pattern & 1 == 1);",
         "kani::assume(start + 32 <= %d * 8 || (pattern >> (%d * 8 - start)) == 0);" % (total, total),
         "let mut bit = 0; while bit < 32 { if (pattern >> bit) & 1 == 1 { let pos = start + bit; if pos < %d * 8 { file[pos / 8] ^= 1u8 << (pos %% 8); } } bit += 1; }" % total,
         "kani::cover!(true, \"VP:reached-call\");",
         "let mut cur = Cursor::new(&file[..]);",
         "let r = verify_crc_trailer_seek(&mut cur, %d);" % total,
         "assert!(r.is_err(), \"VP:corrupted-file-accepted\");", "forget(r);"]
    return mk("c07_burst_%d" % n, b, "accept", "burst/%d" % n,
              "every %d-byte payload with its real CRC-32 trailer: flipping any burst of <= 32 consecutive bits (first bit set) anywhere in the file makes the gate reject it" % n,
              ["verify_crc_trailer_seek", "crc32fast baseline table implementation"], "payload %d bytes (+4 trailer), burst <= 32 bits at any bit offset" % n,
              max(total + 2, 34), tier, [STUB_REAL])


def off(h, why):
    h.tier = "off"
    h.off_reason = why
    return h


def plan(tier, seed):
    HB = "std HashMap/HashSet (hashbrown) operations inside CompileCtx::compile / the symbol and dictionary loops: no verdict in 900-2400 s, also under the all-colliding hasher stub"
    DI = "decode_instructions over >= 13 symbolic bytes (two loop iterations with 8-way opcode dispatch at symbolic cursor positions): out of 10 GB"
    hs = [gen_gate(8, "quick"), gen_gate(4, "thorough"), gen_gate(16, "thorough"), gen_short("quick"),
          gen_loader_nopanic("features", ["feature_off"], "quick", unwind=5), gen_loader_nopanic("types", ["types_off"], "thorough", unwind=5),
          gen_loader_nopanic("consts", ["const_count", "const_tbl_off", "const_tbl_len"], "quick", unwind=5),
          gen_loader_nopanic("blob", ["const_blob_off", "const_blob_len"], "quick", unwind=18),
          off(gen_loader_nopanic("instrs", ["instr_off", "instr_len"], "thorough", unwind=18), DI),
          off(gen_loader_nopanic("symbols", ["symbols_off", "symbols_len"], "thorough", unwind=5), HB),
          off(gen_loader_nopanic("dict", ["dict_off", "dict_len"], "thorough", unwind=5), HB),
          gen_decode_instr(9, "thorough"), gen_decode_instr(5, "thorough"),
          off(gen_decode_instr_nopanic(13, "quick"), DI), off(gen_decode_instr_nopanic(18, "thorough"), DI), off(gen_decode_instr_nopanic(26, "thorough"), DI),
          gen_parse_const_entries("quick"),
          off(gen_roundtrip("quick"), HB), off(gen_symbols(1, "quick"), HB), off(gen_symbols(12, "quick"), HB), off(gen_symbols(13, "thorough"), HB),
          gen_burst(4, "quick"), gen_burst(8, "thorough")]
    qtags = {"U8", "F64", "R64"}
    for tagname, size in SCALAR_TAGS:
        hs.append(gen_decode_const(tagname, size, "quick" if tagname in qtags else "thorough"))
    hs.append(gen_decode_const("U8", 1, "quick", bad_id="1"))
    hs.append(gen_decode_const("U8", 1, "thorough", bad_id="u32::MAX"))
    hs.append(gen_vararg_reader(17, "quick"))
    hs.append(gen_vararg_writer(17, "quick"))
    hs.append(gen_vararg_reader(33, "thorough"))
    hs.append(gen_vararg_writer(33, "thorough"))
    for k in INSTR_KINDS:
        hs.append(gen_instr_kind(*k))
    for t in ["u8", "f64"]:
        hs.append(gen_decode_const_roundtrip(t, "quick"))
    for t in ["i64", "bool", "u16"]:
        hs.append(gen_decode_const_roundtrip(t, "thorough"))
    hs.append(gen_encode_string("quick"))
    hs.append(off(gen_decode_const_roundtrip("String", "quick"), "String::from_le -> String::from_utf8 (UTF-8 validation loops over a symbolic-length buffer): no verdict in 2400 s"))
    for t in ["u32", "u64", "u128", "i8", "i16", "i32", "i128", "f32", "R64", "C64"]:
        hs.append(gen_decode_const_roundtrip(t, "thorough"))
    return {
        "harnesses": hs,
        "incrate_prelude": {WHERE: PRELUDE},
        "explanation": "Kani/CBMC over the real loader (load_program_from_bytes, verify_crc_trailer_seek, load_program_from_reader, "
                       "decode_instructions, parse_const_entries, decode_const_entries), writer (CompileCtx::compile, to_bytes) and constant "
                       "codecs, with whole headers, section bytes, constant entries and checksums symbolic",
        "bounds": "files of 145 bytes (129-byte header + 12 body bytes + trailer) with one section's header fields symbolic at a time; instruction "
                  "streams of 5 and 9 bytes, single instructions of every kind, VarArg with 17 / 33 operands; 1 constant entry over a 16-byte blob; "
                  "constant codec round trip for 2 constants; CRC burst on 4/8-byte payloads",
        "outside": ["whole-file round trip compile() -> from_bytes -> to_bytes and the symbol / dictionary sections: CompileCtx and the loader keep them "
                    "in std HashMaps, which get no verdict (see excluded_no_verdict); the per-section codecs are decided instead",
                    "instruction streams of 13 bytes and more with arbitrary content (no verdict); single instructions of every kind are decided",
                    "matrix / set / table / string constant decoders (ConstElem::from_le for containers, UTF-8 validation)",
                    "allocation sizes that do not overflow: `Vec::with_capacity(n)` / `vec![0; n]` for n below CBMC's object-size limit is not observable "
                    "(VarArg operand count, const_count, type payload length, dictionary name length are only bounded by u32)",
                    "section offsets pointing into the header (1..128)",
                    "CRC burst detection for payloads longer than 8 bytes (rests on linearity of CRC-32)", "truncation of emitted files"],
        "stubs": ["std::fmt::format -> String::new()", "crc32fast::hash -> nondet u32 (gate, hostile input) | deterministic byte sum (round trip) | "
                  "crc32fast::Hasher::internal_new_baseline (burst detection); the SIMD path behind cpuid detection is not encoded"],
        "caps": {"quick_timeout": 900, "thorough_timeout": 2400},
    }
