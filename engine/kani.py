"""Run `cargo kani` over the scratch workspace and turn its JSON export into per-harness verdicts."""
import os, subprocess, json, time, threading, signal, re, tempfile
from . import ws

KANI_ENV = {
    "CARGO_NET_OFFLINE": "true",
    "RUSTC_BOOTSTRAP": "1",
    "CARGO_TERM_COLOR": "never",
}


class Watchdog(threading.Thread):
    """Kills cbmc / goto-instrument processes of our process group whose RSS exceeds the cap.
    A killed solver shows up as a harness without a verdict -> inconclusive, never a pass."""

    def __init__(self, pgid, rss_cap_kb):
        super().__init__(daemon=True)
        self.pgid = pgid
        self.cap = rss_cap_kb
        self.stop = False
        self.killed = []

    def run(self):
        while not self.stop:
            try:
                out = subprocess.run(["ps", "-eo", "pid,pgid,rss,comm"], capture_output=True, text=True).stdout
                for line in out.splitlines()[1:]:
                    parts = line.split(None, 3)
                    if len(parts) < 4:
                        continue
                    pid, pgid, rss, comm = int(parts[0]), int(parts[1]), int(parts[2]), parts[3]
                    if pgid == self.pgid and comm.strip() in ("cbmc", "goto-instrument", "goto-cc") and rss > self.cap:
                        try:
                            os.kill(pid, signal.SIGKILL)
                            self.killed.append((pid, comm.strip(), rss))
                        except ProcessLookupError:
                            pass
            except Exception:
                pass
            time.sleep(2)


def run_kani(pkg, harnesses, jobs=12, harness_timeout=300, rss_cap_gb=10, wall_cap=None,
             extra_args=None, log_path=None, features=None):
    """harnesses: list of fully qualified names. Returns (results, meta).
    results[name] = {status: pass|fail|inconclusive, failed:[{desc,function,file,line,category}],
                     covers:{satisfied,unsat}, checks, proved, solver_s, symex_s, reason}"""
    os.makedirs(ws.CACHE, exist_ok=True)
    fd, jpath = tempfile.mkstemp(prefix="kani-", suffix=".json", dir=ws.CACHE)
    os.close(fd)
    os.remove(jpath)
    cmd = ["cargo", "kani", "-p", pkg, "-Z", "stubbing", "-Z", "unstable-options",
           "-j", str(jobs), "--output-format", "terse",
           "--harness-timeout", "%ds" % harness_timeout,
           "--export-json", jpath, "--exact"]
    if features:
        cmd += ["--features", features]
    for h in harnesses:
        cmd += ["--harness", h]
    if extra_args:
        cmd += extra_args
    env = dict(os.environ)
    env.update(KANI_ENV)
    t0 = time.time()
    logf = open(log_path, "w") if log_path else subprocess.DEVNULL
    p = subprocess.Popen(cmd, cwd=ws.WS, env=env, stdout=logf, stderr=subprocess.STDOUT, start_new_session=True)
    wd = Watchdog(p.pid, int(rss_cap_gb * 1024 * 1024))
    wd.start()
    timed_out = False
    try:
        p.wait(timeout=wall_cap)
    except subprocess.TimeoutExpired:
        timed_out = True
        try:
            os.killpg(p.pid, signal.SIGKILL)
        except ProcessLookupError:
            pass
        p.wait()
    wd.stop = True
    if log_path:
        logf.close()
    wall = time.time() - t0
    results = {h: {"status": "inconclusive", "reason": "no verdict reported", "failed": [], "checks": 0, "proved": 0,
                   "covers_sat": 0, "covers_unsat": 0, "solver_s": 0.0, "symex_s": 0.0} for h in harnesses}
    meta = {"wall_s": wall, "rc": p.returncode, "timed_out": timed_out, "killed": wd.killed, "cmd": " ".join(cmd[:12]) + " ...",
            "kani_version": None, "cbmc_version": None, "build_failed": False}
    log_txt = ""
    if log_path and os.path.exists(log_path):
        with open(log_path, errors="replace") as f:
            log_txt = f.read()
    if not os.path.exists(jpath):
        meta["build_failed"] = True
        meta["log_tail"] = log_txt[-4000:]
        for h in harnesses:
            results[h]["reason"] = "cargo kani produced no JSON (build error or killed)"
        return results, meta
    with open(jpath) as f:
        j = json.load(f)
    os.remove(jpath)
    meta["kani_version"] = j.get("tools", {}).get("kani")
    meta["cbmc_version"] = j.get("tools", {}).get("cbmc")
    stats = {c["harness_id"]: c.get("cbmc_stats", {}) for c in j.get("cbmc", [])}
    errs = {e["harness_id"]: e for e in j.get("error_details", [])}
    for r in j.get("verification_results", {}).get("results", []):
        h = r["harness_id"]
        if h not in results:
            continue
        res = results[h]
        checks = r.get("checks", [])
        failed, undet, csat, cunsat, proved = [], 0, 0, 0, 0
        for c in checks:
            st = c.get("status", "")
            cat = c.get("category", "")
            entry = {"desc": c.get("description", ""), "function": c.get("function", ""),
                     "file": (c.get("location") or {}).get("file", ""), "line": (c.get("location") or {}).get("line", ""),
                     "category": cat}
            if st == "Failure":
                failed.append(entry)
            elif st in ("Undetermined",):
                undet += 1
            elif st == "Satisfied":
                csat += 1
            elif st in ("Unsatisfiable",):
                cunsat += 1
                res.setdefault("unsat_covers", []).append(entry["desc"])
            elif st in ("Success", "Unreachable"):
                proved += 1
        res["failed"] = failed
        res["checks"] = len(checks)
        res["proved"] = proved
        res["covers_sat"] = csat
        res["covers_unsat"] = cunsat
        res["undetermined"] = undet
        res["duration_s"] = r.get("duration_ms", 0) / 1000.0
        st = stats.get(h, {})
        res["solver_s"] = st.get("runtime_decision_procedure_s", 0.0) or 0.0
        res["symex_s"] = st.get("runtime_symex_s", 0.0) or 0.0
        res["program_size"] = st.get("size_program_expression", 0)
        res["vccs"] = st.get("vccs_remaining", 0)
        status = r.get("status")
        e = errs.get(h, {})
        if status == "Success" and not failed and undet == 0:
            res["status"] = "pass"
            res["reason"] = ""
        elif failed:
            res["status"] = "fail"
            res["reason"] = e.get("error_type", "failed checks")
        else:
            res["status"] = "inconclusive"
            res["reason"] = "%s/%s" % (e.get("error_type", status), e.get("exit_status", ""))
    # harness-level timeouts are only visible in the log
    for m in re.finditer(r"Checking harness (\S+?)\.\.\.", log_txt):
        pass
    for h in harnesses:
        if results[h]["status"] == "inconclusive" and results[h]["reason"] == "no verdict reported":
            if timed_out:
                results[h]["reason"] = "wall cap reached"
            elif re.search(r"timed out|TIMEOUT|Timeout", log_txt):
                results[h]["reason"] = "harness timeout / killed (see log)"
    return results, meta
