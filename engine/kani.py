"""Compile harnesses with kani-compiler (`cargo kani --only-codegen`) and run the CBMC pipeline ourselves.

Why not let kani-driver run CBMC: it asks CBMC for `--json-ui --verbosity 9` and parses tens of megabytes of trace JSON
per harness in one process (measured: 7 s of a 10 s "verification time", 14 GB RSS with -j 14).  The commands below are the
ones kani-driver 0.68 runs (`cargo kani -v`), with CBMC's plain-text UI instead of the JSON one:

    goto-cc <h>.symtab.out kani_lib.c -o <h>.out
    goto-cc <h>.out --function <mangled> -o <h>.out
    goto-instrument --add-library --no-malloc-may-fail
    goto-instrument --generate-function-body-options assert-false-assume-false --generate-function-body '.*' --drop-unused-functions
    goto-instrument --ensure-one-backedge-per-target
    cbmc --no-malloc-may-fail --no-undefined-shift-check --no-signed-overflow-check   (kani-driver also passes --nan-check: see CBMC_FLAGS)
         --no-self-loops-to-assumptions --no-pointer-primitive-check --object-bits 16 --unwind N
         (--sat-solver cadical | --external-sat-solver kissat) --slice-formula

Unwinding assertions stay on (CBMC 6 default), so a too-small bound is a failed property, never a silent truncation.
Kani's reachability instrumentation is switched off at codegen (`--no-assertion-reach-checks`); vacuity is guarded by the
harnesses' own `kani::cover!` witnesses, which Kani encodes as `assert(!cond)`: FAILURE = the witness is satisfied.
"""
import os, sys, subprocess, json, time, re, glob, resource, signal, shutil
from concurrent.futures import ThreadPoolExecutor
from . import ws

KANI_ENV = {
    "CARGO_NET_OFFLINE": "true",
    "RUSTC_BOOTSTRAP": "1",
    "CARGO_TERM_COLOR": "never",
}
KANI_HOME = os.path.expanduser("~/.kani/kani-0.68.0")
KANI_LIB_C = os.path.join(KANI_HOME, "library", "kani", "kani_lib.c")
# `--nan-check` (which kani-driver passes) is NOT passed: it makes CBMC report every float operation that can produce NaN (inf - inf,
# 0 * inf, 0 / 0) as a failed check.  A NaN result is what IEEE-754 - and property C01 - prescribe, Rust does not panic on it, and the
# harnesses compare results with the operator's own NaN-aware oracle; with the check on, every f32/f64 arithmetic harness over all bit
# patterns raised a false alarm ("NaN on +").
CBMC_FLAGS = ["--no-malloc-may-fail", "--no-undefined-shift-check", "--no-signed-overflow-check",
              "--no-self-loops-to-assumptions", "--no-pointer-primitive-check", "--object-bits", "16"]

# a property id is `<function>.<class>.<n>`; the function part may itself contain brackets (`<usize as SliceIndex<[T]>>::index`),
# so the id is delimited by its `.class.n] ` ending, not by the first `]`
PROP_LINE = re.compile(r"^\[(?P<name>.+?\.(?:\d+|recursion))\] (?:line (?P<line>\d+) )?(?P<desc>.*): (?P<status>SUCCESS|FAILURE|UNKNOWN|ERROR)$")
SUMMARY_LINE = re.compile(r"^\*\* (\d+) of (\d+) failed")
HEAD_LINE = re.compile(r"^(?P<file>\S.*) function (?P<fn>.+)$")


def versions():
    out = {}
    try:
        out["cbmc"] = subprocess.run(["cbmc", "--version"], capture_output=True, text=True).stdout.strip()
        out["kani"] = subprocess.run(["cargo", "kani", "--version"], capture_output=True, text=True).stdout.strip().split("\n")[0]
    except Exception:
        pass
    return out


def codegen(pkg, feature_args, log_path, need=()):
    """-> (ok, {pretty_name: metadata}, wall_s)"""
    cmd = ["cargo", "kani", "-p", pkg, "-Z", "stubbing", "--only-codegen", "--no-assertion-reach-checks"] + list(feature_args)
    if RESTRICT_VTABLE:
        # Kani's vtable restriction: every `dyn Trait` call site is limited to the methods of the trait's implementors instead of
        # every function of matching signature (CBMC's default function-pointer removal).  The restriction file is applied by
        # verify_one exactly as kani-driver does it.
        cmd[2:2] = ["-Z", "restrict-vtable"]
    env = dict(os.environ)
    env.update(KANI_ENV)
    t0 = time.time()
    # `--only-codegen` still makes kani-driver link every harness with goto-cc, one after the other; we do that step
    # ourselves in parallel, so the driver is stopped as soon as cargo reports that compilation has finished.
    with open(log_path, "w") as lf:
        p = subprocess.Popen(cmd, cwd=ws.WS, env=env, stdout=lf, stderr=subprocess.STDOUT, start_new_session=True)
    finished = False
    while True:
        try:
            p.wait(timeout=1.0)
            break
        except subprocess.TimeoutExpired:
            pass
        try:
            with open(log_path, errors="replace") as f:
                t = f.read()
        except OSError:
            t = ""
        if re.search(r"^\s*Finished `dev` profile", t, re.M):
            finished = True
            time.sleep(0.5)
            try:
                os.killpg(p.pid, signal.SIGKILL)
            except ProcessLookupError:
                pass
            p.wait()
            break
    wall = time.time() - t0
    if not finished:
        try:
            with open(log_path, errors="replace") as f:
                finished = bool(re.search(r"^\s*Finished `dev` profile", f.read(), re.M))
        except OSError:
            pass
    if not finished:
        return False, {}, wall
    base = os.path.join(ws.WS, "target", "kani", "x86_64-unknown-linux-gnu", "debug", "build", pkg)
    metas = sorted(glob.glob(os.path.join(base, "*", "out", "*.kani-metadata.json")), key=os.path.getmtime, reverse=True)
    if not metas:
        return False, {}, wall
    hs = {}
    for mpath in metas:
        with open(mpath) as f:
            md = json.load(f)
        cand = {h["pretty_name"]: h for h in md.get("proof_harnesses", [])}
        if all(n in cand for n in need) and all(os.path.exists(h["goto_file"]) for n, h in cand.items() if n in need):
            hs = cand
            break
    if not hs and need:
        return False, {}, wall
    # old codegen directories (other feature sets / hashes) are only garbage once superseded: keep the newest 6
    for m in metas[6:]:
        shutil.rmtree(os.path.dirname(os.path.dirname(m)), ignore_errors=True)
    return True, hs, wall


_LIVE = set()


def kill_live(*_a):
    for pid in list(_LIVE):
        try:
            os.killpg(pid, signal.SIGKILL)
        except Exception:
            pass
    os._exit(3)


def _limit(rss_gb):
    def f():
        os.setsid()
        cap = int(rss_gb * 1024 ** 3)
        resource.setrlimit(resource.RLIMIT_AS, (cap, cap))
    return f


def _run(cmd, timeout, rss_gb, out_path=None):
    t0 = time.time()
    try:
        if out_path:
            with open(out_path, "w") as of:
                p = subprocess.Popen(cmd, stdout=of, stderr=subprocess.STDOUT, preexec_fn=_limit(rss_gb))
        else:
            p = subprocess.Popen(cmd, stdout=subprocess.DEVNULL, stderr=subprocess.DEVNULL, preexec_fn=_limit(rss_gb))
        _LIVE.add(p.pid)
        try:
            rc = p.wait(timeout=timeout)
            _LIVE.discard(p.pid)
            return rc, time.time() - t0, False
        except subprocess.TimeoutExpired:
            _LIVE.discard(p.pid)
            try:
                os.killpg(p.pid, signal.SIGKILL)
            except ProcessLookupError:
                pass
            p.wait()
            return -9, time.time() - t0, True
    except Exception as e:
        sys.stderr.write("engine.kani: could not run %s: %r\n" % (cmd[0], e))
        return -1, time.time() - t0, False


def parse_cbmc(text):
    """-> dict(failed=[...], covers_sat=[...], covers_unsat=[...], checks=int, proved=int, stats)"""
    cur_file, cur_fn = "", ""
    failed, csat, cunsat = [], [], []
    checks = proved = unknown = 0
    n_lines = n_fail_lines = 0
    summary = None
    in_results = False
    STATUS_END = re.compile(r": (SUCCESS|FAILURE|UNKNOWN|ERROR)$")
    joined, pend = [], None
    for raw in text.split("\n"):
        # a property description can span lines (Kani's "please report" texts): the status is at the end of the last one
        if pend is not None:
            pend += " " + raw.strip()
            if STATUS_END.search(raw):
                joined.append(pend)
                pend = None
            continue
        if raw.startswith("[") and "] " in raw and not STATUS_END.search(raw) and not raw.startswith("[Kani]"):
            pend = raw
            continue
        joined.append(raw)
    if pend is not None:
        joined.append(pend)
    for line in joined:
        if line.startswith("** Results:"):
            in_results = True
            continue
        if not in_results:
            continue
        sm = SUMMARY_LINE.match(line)
        if sm:
            summary = (int(sm.group(1)), int(sm.group(2)))
            continue
        m = PROP_LINE.match(line)
        if m:
            name, desc, status = m.group("name"), m.group("desc"), m.group("status")
            n_lines += 1
            if status == "FAILURE":
                n_fail_lines += 1
            cls = "recursion" if name.endswith(".recursion") else (name.rsplit(".", 2)[-2] if name.count(".") >= 2 else name.split(".")[0])
            desc = re.sub(r"^\[KANI_CHECK_ID_[^\]]*\]\s*", "", desc).strip()
            desc = desc.strip('"')
            checks += 1
            if cls == "cover":
                (csat if status == "FAILURE" else cunsat).append(desc)
                continue
            if cls == "reachability_check":
                checks -= 1
                continue
            if status == "SUCCESS":
                proved += 1
            elif status == "FAILURE":
                failed.append({"desc": desc, "function": cur_fn, "file": cur_file, "line": m.group("line") or "",
                               "category": cls, "property": name})
            else:
                unknown += 1
            continue
        h = HEAD_LINE.match(line)
        if h and not line.startswith("["):
            cur_file, cur_fn = h.group("file"), h.group("fn")
    stats = {}
    m = re.findall(r"Runtime Solver: ([0-9.e+-]+)s", text)
    stats["solver_s"] = sum(float(x) for x in m)
    m = re.findall(r"Runtime decision procedure: ([0-9.e+-]+)s", text)
    stats["decision_s"] = sum(float(x) for x in m)
    m = re.search(r"Runtime Symex: ([0-9.e+-]+)s", text)
    stats["symex_s"] = float(m.group(1)) if m else 0.0
    m = re.search(r"size of program expression: (\d+) steps", text)
    stats["program_steps"] = int(m.group(1)) if m else 0
    m = re.findall(r"(\d+) variables, (\d+) clauses", text)
    if m:
        stats["sat_variables"], stats["sat_clauses"] = int(m[-1][0]), int(m[-1][1])
    done = "VERIFICATION SUCCESSFUL" in text or "VERIFICATION FAILED" in text
    # every property CBMC reports must have been parsed: "** F of N failed" is the cross-check
    if done and summary is not None and (summary[1] != n_lines or summary[0] != n_fail_lines):
        unknown += max(1, abs(summary[1] - n_lines) + abs(summary[0] - n_fail_lines))
        stats["parse_mismatch"] = "cbmc reports %d of %d failed, parsed %d of %d" % (summary[0], summary[1], n_fail_lines, n_lines)
    return {"failed": failed, "covers_sat": csat, "covers_unsat": cunsat, "checks": checks, "proved": proved,
            "unknown": unknown, "stats": stats, "done": done}


# Recursive std/derive code over the recursive enums ValueKind / Value (derived Hash, Clone, PartialEq, drop glue).  CBMC cannot
# fold their niche-encoded discriminants during symbolic execution and would unroll these recursions to the harness'
# loop bound in every direction.  They get their own, small recursion bound; like every bound it is guarded by an
# unwinding assertion, so a value that really nests deeper makes the harness inconclusive, never a silent pass.
REC_PATTERNS = [
    (re.compile(r"(ValueKind|mech_core::Value\b|value::Value\b).*"), re.compile(r"hash|clone|drop_glue|drop_in_place|::eq|::ne|to_vec|fmt"), 3),
    # C20: the include expander recurses once per include edge; three files => a chain of at most 3 distinct files, the 4th call
    # detects the cycle.  5 leaves one spare level (unwinding assertion if exceeded)
    (re.compile(r"expand_mechdown_includes_recursive|expand_mechdown_include_tokens|verif_c20::oracle"), re.compile(r"."), 5),
]


def recursion_limits(meta, k_override=None):
    sym = meta["goto_file"]
    pm = sym[:-len(".symtab.out")] + ".pretty_name_map.json"
    out = []
    try:
        with open(pm) as f:
            m = json.load(f)
    except Exception:
        return out
    for mangled, pretty in m.items():
        if not pretty or not mangled.startswith("_R"):
            continue
        if "::1::" in mangled or " " in mangled:
            continue
        for ty, fn, k in REC_PATTERNS:
            if ty.search(pretty) and fn.search(pretty):
                out.append("%s:%d" % (mangled, k_override or k))
                break
    return out


RESTRICT_VTABLE = not os.environ.get("VERIF_NO_RESTRICT")
FS_ARRAY_DEFAULT = 1024     # see ws.REPR_PATCH: heap objects larger than CBMC's default 64 bytes lose constant propagation


def verify_one(meta, unwind, solver, timeout, rss_gb, keep_log_dir, rec_limit=None, extra=None, fs_array=None, trace_props=None):
    """run the post-codegen pipeline for one harness -> result dict"""
    sym = meta["goto_file"]
    mangled = meta["mangled_name"]
    out = sym[:-len(".symtab.out")] + ".out"
    res = {"status": "inconclusive", "reason": "", "failed": [], "checks": 0, "proved": 0, "covers_sat": 0, "covers_unsat": 0,
           "unsat_covers": [], "sat_covers": [], "solver_s": 0.0, "symex_s": 0.0, "wall_s": 0.0}
    t0 = time.time()
    steps = [
        ["goto-cc", sym, KANI_LIB_C, "-o", out],
        ["goto-cc", out, "--function", mangled, "-o", out],
    ]
    restr = sym[:-len(".symtab.out")] + ".restrictions.json"
    if RESTRICT_VTABLE and os.path.exists(restr):
        try:
            with open(restr) as f:
                rj = json.load(f)
            poss = {}
            for e in rj.get("possible_methods", []):
                tm = e["trait_method"]
                poss.setdefault((tm["trait_name"], tm["vtable_idx"]), []).extend(e["possibilities"])
            linked = {}
            for cs in rj.get("call_sites", []):
                tm = cs["trait_method"]
                linked["%s.%s" % (cs["function_name"], cs["label"])] = poss.get((tm["trait_name"], tm["vtable_idx"]), [])
            lp = sym[:-len(".symtab.out")] + ".linked-restrictions.json"
            with open(lp, "w") as f:
                json.dump(linked, f)
            steps.append(["goto-instrument", "--function-pointer-restrictions-file", lp, out, out])
            res["vtable_call_sites_restricted"] = len(linked)
        except Exception as e:
            res["reason"] = "could not read %s: %r" % (restr, e)
            return res
    steps += [
        ["goto-instrument", "--add-library", "--no-malloc-may-fail", out, out],
        ["goto-instrument", "--generate-function-body-options", "assert-false-assume-false", "--generate-function-body", ".*",
         "--drop-unused-functions", out, out],
        ["goto-instrument", "--ensure-one-backedge-per-target", out, out],
    ]
    for st in steps:
        rc, w, to = _run(st, max(60, timeout), rss_gb)
        if rc != 0:
            res["reason"] = "%s failed (rc %s%s)" % (st[0] + " " + st[1][:24], rc, ", timeout" if to else "")
            res["wall_s"] = time.time() - t0
            return res
    cmd = ["cbmc"] + CBMC_FLAGS + ["--unwind", str(unwind or 1)]
    if solver == "kissat":
        cmd += ["--external-sat-solver", "kissat"]
    else:
        cmd += ["--sat-solver", "cadical"]
    rl = recursion_limits(meta, rec_limit)
    # one argument may not exceed 128 KB (MAX_ARG_STRLEN): the option is repeatable, so chunk the list
    for k in range(0, len(rl), 40):
        cmd += ["--unwindset", ",".join(rl[k:k + 40])]
    fsa = fs_array if fs_array is not None else int(os.environ.get("VERIF_FS_ARRAY", FS_ARRAY_DEFAULT))
    if fsa:
        cmd += ["--max-field-sensitivity-array-size", str(fsa)]
    cmd += list(extra or []) + os.environ.get("VERIF_CBMC_EXTRA", "").split()
    if trace_props:
        # second run for a counterexample: only the violated properties, with the trace (input values of the kani::any calls)
        for tp in trace_props:
            cmd += ["--property", tp]
        cmd += ["--trace", "--stop-on-fail"]
    cmd += ["--slice-formula", out, "--verbosity", "8" if not trace_props else "4"]
    logp = os.path.join(keep_log_dir, re.sub(r"[^A-Za-z0-9_]", "_", meta["pretty_name"])[-150:] + (".cbmc.txt" if not trace_props else ".trace.txt"))
    rc, w, to = _run(cmd, timeout, rss_gb, out_path=logp)
    res["wall_s"] = time.time() - t0
    try:
        with open(logp, errors="replace") as f:
            text = f.read()
    except FileNotFoundError:
        text = ""
    if to:
        res["reason"] = "cbmc timeout after %ds" % timeout
        return res
    if trace_props:
        res["trace_log"] = logp
        res["status"] = "traced"
        return res
    pr = parse_cbmc(text)
    res.update({"failed": pr["failed"], "checks": pr["checks"], "proved": pr["proved"], "covers_sat": len(pr["covers_sat"]),
                "covers_unsat": len(pr["covers_unsat"]), "unsat_covers": pr["covers_unsat"], "sat_covers": pr["covers_sat"],
                "solver_s": pr["stats"].get("decision_s", 0.0), "symex_s": pr["stats"].get("symex_s", 0.0),
                "program_steps": pr["stats"].get("program_steps", 0), "sat_variables": pr["stats"].get("sat_variables", 0),
                "undetermined": pr["unknown"]})
    if not pr["done"]:
        tail = text[-400:].replace("\n", " | ")
        res["reason"] = "cbmc ended without a verdict (rc %s; out of memory cap %sGB?) %s" % (rc, rss_gb, tail[-200:])
        return res
    if pr["failed"]:
        res["status"] = "fail"
    elif pr["unknown"]:
        res["status"] = "inconclusive"
        res["reason"] = "%d properties UNKNOWN" % pr["unknown"]
    else:
        res["status"] = "pass"
        try:
            if not os.environ.get("VERIF_KEEP_LOGS"):
                os.remove(logp)
        except OSError:
            pass
    try:
        os.remove(out)
    except OSError:
        pass
    return res


def run_group(pkg, harnesses, feature_args, jobs, timeout, rss_gb, log_dir, tag):
    """harnesses: list of model.H with .path/.unwind/.solver.  -> (results{name}, meta)"""
    os.makedirs(log_dir, exist_ok=True)
    blog = os.path.join(log_dir, "%s.build.log" % tag)
    ok, mds, bwall = codegen(pkg, feature_args, blog, [h.path for h in harnesses])
    meta = {"pkg": pkg, "build_wall_s": round(bwall, 1), "build_failed": not ok, "build_log": blog}
    results = {}
    if not ok:
        with open(blog, errors="replace") as f:
            t = f.read()
        errs = re.findall(r"^error.*(?:\n.*){0,8}", t, re.M)
        meta["log_tail"] = ("\n".join(errs[:6]) if errs else t[-3000:])
        for h in harnesses:
            results[h.name] = {"status": "inconclusive", "reason": "harness crate did not build", "failed": [], "checks": 0,
                               "proved": 0, "covers_sat": 0, "covers_unsat": 0, "solver_s": 0.0, "symex_s": 0.0}
        return results, meta
    t0 = time.time()

    def work(h):
        md = mds.get(h.path)
        if not md:
            return h.name, {"status": "inconclusive", "reason": "harness not found in kani metadata", "failed": [], "checks": 0,
                            "proved": 0, "covers_sat": 0, "covers_unsat": 0, "solver_s": 0.0, "symex_s": 0.0}
        r = verify_one(md, h.unwind, h.solver, timeout, rss_gb, log_dir, getattr(h, "rec_limit", None), getattr(h, "cbmc_extra", None),
                       getattr(h, "fs_array", None))
        r["_md"] = md
        r["_run"] = {"timeout": timeout, "rss_gb": rss_gb, "log_dir": log_dir}
        return h.name, r
    done = 0
    from concurrent.futures import as_completed
    with ThreadPoolExecutor(max_workers=jobs) as ex:
        futs = [ex.submit(work, h) for h in harnesses]
        for fu in as_completed(futs):
            name, r = fu.result()
            results[name] = r
            done += 1
            if os.environ.get("VERIF_PROGRESS", "1") != "0":
                print("  [%d/%d] %s: %s %s (%.0fs)" % (done, len(harnesses), name, r["status"], (r.get("reason") or "")[:60], r.get("wall_s", 0)), flush=True)
    meta["verify_wall_s"] = round(time.time() - t0, 1)
    return results, meta


ANY_STATE = re.compile(r"^State \d+ file .* function (kani::any_raw_\S*.*?) line \d+ thread \d+$")


def concrete_values(trace_text):
    """-> list of byte lists: the values returned by the kani::any_raw_* calls along the FIRST counterexample trace, in execution
    order (the same extraction kani-driver does from the JSON trace: assignments to `goto_symex$$return_value...` inside
    `kani::any_raw_*`).  Arrays come as one value."""
    i = trace_text.find("\nTrace for ")
    if i < 0:
        i = trace_text.find("Counterexample:")
    if i < 0:
        return None
    j = trace_text.find("\nTrace for ", i + 5)
    seg = trace_text[i:j if j > 0 else len(trace_text)]
    lines = seg.split("\n")
    vals = []
    for k, line in enumerate(lines):
        sm = ANY_STATE.match(line)
        if not sm:
            continue
        is_array = "any_raw_array" in sm.group(1)
        # the assignment is two lines below the state header
        for a in lines[k + 1:k + 4]:
            a = a.strip()
            if not a.startswith("goto_symex$$return_value"):
                continue
            lhs, _, rhs = a.partition("=")
            elem = re.search(r"\[(\d+)\]\s*$", lhs)
            if elem and not is_array:
                break        # element of an aggregate already taken as a whole
            if not elem and ("[" in lhs or "." in lhs.replace("goto_symex$$return_value", "").split("$$")[-1].replace("::", "")):
                break        # member of an aggregate already taken as a whole
            m = re.search(r"\((\{?[01 ,{}]+\}?)\)\s*$", rhs)
            if not m:
                break
            groups = [g.strip() for g in m.group(1).strip("{} ").split(",")]
            per_group = []
            for g in groups:
                bits = g.replace(" ", "")
                if not bits or len(bits) % 8:
                    per_group = None
                    break
                n = int(bits, 2)
                per_group.append(list(n.to_bytes(len(bits) // 8, "little")))
            if per_group is not None:
                if is_array:
                    # Kani's playback consumes one value per array ELEMENT (any_raw_array = N x any_raw_internal); with array field
                    # sensitivity CBMC reports the returned array element by element ([k]=..), otherwise as one aggregate {..}
                    vals.extend(per_group)
                else:
                    vals.append([b for gr in per_group for b in gr])
            break
    return vals
