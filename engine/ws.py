"""Scratch workspace: a byte-for-byte copy of the /repo crates the harnesses need,
re-synchronised from /repo's *current working tree* on every run.

Why a copy and not hooks in /repo: Kani only looks for `#[kani::proof]` items in the
packages it is asked to verify (workspace members), and many units under test are
private to their module (compare/logic/pow kernels, horzcat/vertcat structs, the
loader's helper functions, `detach_variable_value`).  The scratch workspace holds

  * plain copies   ws/<crate>     - dependencies, never edited beyond dropping the stand-alone
                                    `[workspace]` table from Cargo.toml, and
  * harness copies ws/h_<crate>   - the same sources, package renamed `<pkg>-h` (lib name kept), with one line
                                    `#[cfg(kani)] include!("<gen>/hook__<crate>__<file>.rs");`
                                    appended to each file listed in HOOKS.  The hook file is a dispatcher that
                                    includes the harness file generated for the property being checked (or nothing).

Every other byte of every source file is /repo's.  Files are only rewritten when their content differs, so
cargo's mtime fingerprints stay valid between runs and an edit under /repo rebuilds exactly the crates it touches.
Harness copies depend on the *plain* copies of their dependencies, so regenerating harnesses for one crate never
rebuilds another.
"""
import os, shutil, hashlib, json, sys, re, fcntl

REPO = os.environ.get("VERIF_REPO", "/repo")
VERIF = os.path.dirname(os.path.dirname(os.path.abspath(__file__)))
CACHE = os.environ.get("VERIF_CACHE") or os.path.join(VERIF, ".cache")
WS = os.path.join(CACHE, "ws")
GEN = os.path.join(CACHE, "gen")

# scratch member dir  <-  repo dir
CRATES = {
    "core": "src/core",
    "interpreter": "src/interpreter",
    "math": "machines/math",
    "compare": "machines/compare",
    "logic": "machines/logic",
    "range": "machines/range",
    "set": "machines/set",
    "matrix": "machines/matrix",
    "stats": "machines/stats",
    "io": "machines/io",
    "combinatorics": "machines/combinatorics",
    "string": "machines/string",
}
PKG = {
    "core": "mech-core", "interpreter": "mech-interpreter", "syntax": "mech-syntax",
    "math": "mech-math", "compare": "mech-compare", "logic": "mech-logic",
    "range": "mech-range", "set": "mech-set", "matrix": "mech-matrix",
    "stats": "mech-stats", "io": "mech-io", "combinatorics": "mech-combinatorics",
    "string": "mech-string",
}
# files of the harness copies that are opened to generated harness code
HOOKS = {
    "math": ["src/ops/add.rs", "src/ops/sub.rs", "src/ops/mul.rs", "src/ops/div.rs", "src/ops/modulus.rs", "src/ops/pow.rs",
             "src/ops/negate.rs", "src/op_assign/mod.rs", "src/op_assign/add_assign.rs", "src/op_assign/sub_assign.rs",
             "src/op_assign/mul_assign.rs", "src/op_assign/div_assign.rs"],
    "compare": ["src/gt.rs", "src/gte.rs", "src/lt.rs", "src/lte.rs", "src/eq.rs", "src/neq.rs"],
    "logic": ["src/and.rs", "src/or.rs", "src/xor.rs", "src/not.rs"],
    "matrix": ["src/matmul.rs"],
    "range": ["src/exclusive.rs", "src/inclusive.rs", "src/exclusive_increment.rs", "src/inclusive_increment.rs", "src/lib.rs"],
    "set": ["src/lib.rs", "src/operations/union.rs", "src/operations/intersection.rs", "src/operations/difference.rs",
            "src/operations/symmetric_difference.rs", "src/relations/subset.rs", "src/relations/proper_subset.rs",
            "src/relations/superset.rs", "src/membership/element_of.rs", "src/relations/proper_superset.rs",
            "src/relations/disjoint.rs", "src/relations/equals.rs", "src/relations/not_equals.rs",
            "src/membership/not_element_of.rs"],
    "core": ["src/lib.rs", "src/value.rs", "src/program/program.rs", "src/program/symbol_table.rs",
             "src/program/compiler/constants.rs", "src/program/compiler/context.rs", "src/program/compiler/sections.rs",
             "src/structures/set.rs", "src/structures/matrix.rs"],
    "interpreter": ["src/lib.rs", "src/interpreter.rs", "src/stdlib/access/matrix.rs", "src/stdlib/access/mod.rs", "src/stdlib/assign/matrix.rs",
                    "src/stdlib/assign/mod.rs", "src/stdlib/horzcat.rs", "src/stdlib/vertcat.rs", "src/stdlib/convert/mod.rs",
                    "src/stdlib/convert/scalar.rs", "src/stdlib/convert/mat_to_mat.rs", "src/stdlib/convert/scalar_to_mat.rs",
                    "src/statements.rs", "src/literals.rs", "src/structures.rs"],
}
NO_PLAIN = {"interpreter"}   # nothing depends on it; only its harness copy is built
SKIP_DIRS = {"target", ".git", "benches", "tests", "examples"}


def hpkg(crate):
    return PKG[crate] + "-h"


def write_if_changed(path, data):
    if isinstance(data, str):
        data = data.encode()
    try:
        with open(path, "rb") as f:
            if f.read() == data:
                return False
    except FileNotFoundError:
        pass
    os.makedirs(os.path.dirname(path), exist_ok=True)
    tmp = path + ".tmp~"
    with open(tmp, "wb") as f:
        f.write(data)
    os.replace(tmp, path)
    return True


def hook_name(crate, relp):
    return "hook__%s__%s" % (crate, relp.replace("/", "_").replace(".rs", ""))


def include_line(crate, relp):
    return '\n#[cfg(kani)] include!("%s/%s.rs");\n' % (GEN, hook_name(crate, relp))


# extra cargo features of harness copies: forwarding features that the crate's own manifest only reaches through `default`
# (cargo-kani does not accept `dep/feature` on its command line)
EXTRA_FEATURES = {"mech-set-h": 'vp_core_set = ["mech-core/set"]'}


def _manifest(data, rename=None):
    txt = data.decode()
    lines = [l for l in txt.split("\n") if l.strip() != "[workspace]"]
    out, skip = [], False
    for l in lines:
        if l.strip().startswith("[[bench]]"):
            skip = True
            continue
        if skip and l.strip().startswith("["):
            skip = False
        if not skip:
            out.append(l)
    txt = "\n".join(out)
    if rename:
        old = re.search(r'^name\s*=\s*"([^"]+)"', txt, re.M).group(1)
        txt = re.sub(r'^name\s*=\s*"[^"]+"', 'name = "%s"' % rename, txt, count=1, flags=re.M)
        libname = old.replace("-", "_")
        if re.search(r"^\[lib\]", txt, re.M):
            if not re.search(r"^\[lib\][^\[]*^name\s*=", txt, re.M | re.S):
                txt = re.sub(r"^\[lib\]", '[lib]\nname = "%s"' % libname, txt, count=1, flags=re.M)
        else:
            txt += '\n[lib]\nname = "%s"\n' % libname
        if rename in EXTRA_FEATURES:
            txt = re.sub(r"^\[features\]\s*$", "[features]\n" + EXTRA_FEATURES[rename], txt, count=1, flags=re.M)
    return txt.encode()


# Explicit enum tags in the verification build.  rustc lays out `Value`, `ValueKind`, `Matrix<T>`, the instruction enums and
# `FeatureFlag` with *niche-encoded* discriminants (the tag of `Value` lives in an unused range of the tag byte of the
# `Matrix<T>` it may contain, ...).  CBMC's symbolic execution folds such a discriminant to a constant when the enum is a
# stack object but not when it is read back from a heap allocation (`Box<Value>`, `Vec<Value>`, `Ref<Value>`,
# `Vec<DecodedInstr>`): every `match` on a heap-resident value then walks all ~60 variants, including the recursive
# clone / drop / hash / eq glue, and the harness never reaches the solver (measured on a 6-variant toy enum: 0.04 s with
# an explicit tag, no verdict in 300 s with the niche layout).  `#[cfg_attr(kani, repr(u8))]` is added to the *scratch
# copies* of these definitions; it changes nothing but the position of the tag, which safe code cannot observe, and none of
# the crates transmutes or pointer-casts these enums.  It is part of every claim (evidence: "enum_layout").
REPR_PATCH = {
    ("core", "src/value.rs"): ["pub enum Value {", "pub enum ValueKind {"],
    ("core", "src/structures/matrix.rs"): ["pub enum Matrix<T> {"],
    ("core", "src/program/compiler/sections.rs"): ["pub enum FeatureFlag {", "pub enum EncodedInstr {"],
    ("core", "src/program/program.rs"): ["pub enum DecodedInstr {"],
}


def _repr_patch(crate, relp, data):
    items = REPR_PATCH.get((crate, relp))
    if not items:
        return data
    nl = b"\r\n" if b"\r\n" in data else b"\n"
    for it in items:
        b = it.encode()
        if data.count(b) != 1:
            raise SystemExit("INCONCLUSIVE: enum definition `%s` not found exactly once in %s/%s" % (it, crate, relp))
        data = data.replace(b, b"#[cfg_attr(kani, repr(u8))]" + nl + b)
    return data


def _copy_tree(src_root, dst_root, rename=None, hooks=None, crate=None, repo_rel=None, hooked=None, member=None):
    changed = 0
    seen = set()
    for dirpath, dirnames, filenames in os.walk(src_root):
        dirnames[:] = [d for d in dirnames if d not in SKIP_DIRS]
        for fn in filenames:
            sp = os.path.join(dirpath, fn)
            relp = os.path.relpath(sp, src_root)
            dp = os.path.join(dst_root, relp)
            seen.add(dp)
            with open(sp, "rb") as f:
                data = f.read()
            if relp == "Cargo.toml":
                data = _manifest(data, rename)
            is_hook = bool(hooks and relp in hooks)
            if is_hook and hooked is not None:
                hooked["%s/%s" % (repo_rel, relp)] = hashlib.sha256(data).hexdigest()
            if member and not os.environ.get("VERIF_NO_REPR"):
                data = _repr_patch(member, relp.replace(os.sep, "/"), data)
            if relp.replace(os.sep, "/") == "src/lib.rs" and b"#![no_main]" in data:
                # the machine crates are libraries that carry `#![no_main]`; with it the test harness of the crate does not link
                # ("undefined symbol: main"), so counterexamples could not be replayed as native tests next to the harness
                data = data.replace(b"#![no_main]", b"#![cfg_attr(not(any(test, kani)), no_main)]", 1)
            if is_hook:
                data = data + include_line(crate, relp).encode()
            if write_if_changed(dp, data):
                changed += 1
    for dirpath, dirnames, filenames in os.walk(dst_root):
        dirnames[:] = [d for d in dirnames if d not in SKIP_DIRS]
        for fn in filenames:
            p = os.path.join(dirpath, fn)
            if p not in seen and not p.endswith(".tmp~"):
                os.remove(p)
    return changed


# ---------------------------------------------------------------------------------------------------------------- indexmap
# `indexmap::IndexSet` is replaced, in the verification build only (`cfg(kani)`), by the Vec-backed model
# engine/models/indexset_model.rs: CBMC gets no verdict on hashbrown's control-group probing (DESIGN A.4), so without it no
# code that builds a set can be put in front of the solver.  The crate in the scratch workspace is the registry's own
# indexmap source (version from /repo's Cargo.lock; IndexMap and everything else untouched) with `pub mod set;` switched by cfg.
# The model is part of every claim that touches a set (C14): "IndexSet behaves as an insertion-ordered duplicate-free list
# whenever Hash agrees with Eq" is trusted, the Hash/Eq agreement itself is decided by the C14 hash-eq harnesses.
INDEXMAP_MODEL = os.path.join(VERIF, "engine", "models", "indexset_model.rs")


def _indexmap_version():
    with open(os.path.join(REPO, "Cargo.lock")) as f:
        t = f.read()
    m = re.search(r'name = "indexmap"\nversion = "([^"]+)"', t)
    if not m:
        raise SystemExit("INCONCLUSIVE: indexmap not found in /repo/Cargo.lock")
    return m.group(1)


def _sync_indexmap():
    import glob
    ver = _indexmap_version()
    cands = sorted(glob.glob(os.path.expanduser("~/.cargo/registry/src/*/indexmap-%s" % ver)))
    if not cands:
        raise SystemExit("INCONCLUSIVE: indexmap-%s sources not in the cargo registry cache" % ver)
    src = cands[0]
    dst = os.path.join(WS, "x_indexmap")
    changed = 0
    for dirpath, dirnames, filenames in os.walk(os.path.join(src, "src")):
        for fn in filenames:
            sp = os.path.join(dirpath, fn)
            relp = os.path.relpath(sp, src)
            with open(sp, "rb") as f:
                data = f.read()
            if relp == os.path.join("src", "lib.rs"):
                if data.count(b"\npub mod set;\n") != 1:
                    raise SystemExit("INCONCLUSIVE: `pub mod set;` not found exactly once in indexmap's lib.rs")
                data = data.replace(b"\npub mod set;\n", b"\n#[cfg(not(kani))]\npub mod set;\n#[cfg(kani)]\n#[path = \"set_model.rs\"]\npub mod set;\n")
            changed += write_if_changed(os.path.join(dst, relp), data)
    with open(INDEXMAP_MODEL, "rb") as f:
        changed += write_if_changed(os.path.join(dst, "src", "set_model.rs"), f.read())
    with open(os.path.join(src, "Cargo.toml")) as f:
        real = f.read()
    hb = re.search(r'\[dependencies\.hashbrown\]\nversion = "([^"]+)"', real).group(1)
    edition = re.search(r'^edition = "(\d+)"', real, re.M).group(1)
    manifest = ('[package]\nname = "indexmap"\nversion = "%s"\nedition = "%s"\n\n[lib]\nname = "indexmap"\npath = "src/lib.rs"\n\n'
                '[features]\ndefault = ["std"]\nstd = []\nserde = ["dep:serde_core"]\ntest_debug = []\n\n'
                '[dependencies]\nequivalent = { version = "1.0", default-features = false }\n'
                'hashbrown = { version = "%s", default-features = false }\n'
                'serde_core = { version = "1.0.220", optional = true, default-features = false }\n' % (ver, edition, hb))
    changed += write_if_changed(os.path.join(dst, "Cargo.toml"), manifest)
    return changed, ver


_lock_fd = None


def lock():
    """one check at a time: they share the scratch workspace and its target directory"""
    global _lock_fd
    os.makedirs(CACHE, exist_ok=True)
    _lock_fd = open(os.path.join(CACHE, "lock"), "w")
    fcntl.flock(_lock_fd, fcntl.LOCK_EX)


def sync():
    """copy /repo's current sources; returns sha256 of every hookable source file (for the evidence)."""
    os.makedirs(WS, exist_ok=True)
    os.makedirs(GEN, exist_ok=True)
    hooked = {}
    changed = 0
    members = []
    for member, rel in CRATES.items():
        if member in NO_PLAIN:
            continue
        changed += _copy_tree(os.path.join(REPO, rel), os.path.join(WS, member), member=member)
        members.append(member)
    for crate, files in HOOKS.items():
        rel = CRATES[crate]
        for relp in files:
            if not os.path.exists(os.path.join(REPO, rel, relp)):
                raise SystemExit("INCONCLUSIVE: hookable file %s/%s no longer exists in /repo" % (rel, relp))
            hp = os.path.join(GEN, hook_name(crate, relp) + ".rs")
            if not os.path.exists(hp):
                write_if_changed(hp, "")
        changed += _copy_tree(os.path.join(REPO, rel), os.path.join(WS, "h_" + crate), rename=hpkg(crate),
                              hooks=set(files), crate=crate, repo_rel=rel, hooked=hooked, member=crate)
        members.append("h_" + crate)
    n_im, im_ver = _sync_indexmap()
    changed += n_im
    for d in sorted(os.listdir(WS)):
        if d.startswith("x_") and d != "x_indexmap" and os.path.exists(os.path.join(WS, d, "Cargo.toml")):
            members.insert(0, d)
    root = "[workspace]\nresolver = \"3\"\nmembers = [%s]\n\n[patch.crates-io]\n" % ", ".join('"%s"' % m for m in members)
    for member in CRATES:
        if member not in NO_PLAIN:
            root += '%s = { path = "%s" }\n' % (PKG[member], member)
    root += 'indexmap = { path = "x_indexmap" }\n'
    root += "\n[profile.dev]\ndebug = false\n"
    write_if_changed(os.path.join(WS, "Cargo.toml"), root)
    lock_src = os.path.join(REPO, "Cargo.lock")
    lock_dst = os.path.join(WS, "Cargo.lock")
    if not os.path.exists(lock_dst):
        shutil.copy(lock_src, lock_dst)
    write_if_changed(os.path.join(WS, ".cargo", "config.toml"),
                     "[net]\noffline = true\n\n[env]\nRUSTC_BOOTSTRAP = \"1\"\n")
    vh = os.path.join(WS, "vh")
    if os.path.isdir(vh):
        shutil.rmtree(vh)
    return {"hooked_sha256": hooked, "files_rewritten": changed, "indexmap_version": im_ver}


def write_standalone(crate_dir, pkg, cargo_toml, lib_rs):
    """a harness crate that is not a copy of a /repo crate (code extracted from a /repo source file at run time)"""
    d = os.path.join(WS, crate_dir)
    write_if_changed(os.path.join(d, "Cargo.toml"), cargo_toml)
    write_if_changed(os.path.join(d, "src", "lib.rs"), lib_rs)
    root = os.path.join(WS, "Cargo.toml")
    with open(root) as f:
        t = f.read()
    if '"%s"' % crate_dir not in t:
        t = t.replace("members = [", 'members = ["%s", ' % crate_dir, 1)
        write_if_changed(root, t)


def set_hooks(crate, gens):
    """gens: {relpath: text}.  Every hook of `crate` not in gens is emptied."""
    for relp in HOOKS[crate]:
        hp = os.path.join(GEN, hook_name(crate, relp) + ".rs")
        write_if_changed(hp, gens.get(relp, ""))


def repo_head():
    import subprocess
    try:
        h = subprocess.run(["git", "-C", REPO, "rev-parse", "HEAD"], capture_output=True, text=True).stdout.strip()
        d = subprocess.run(["git", "-C", REPO, "status", "--porcelain"], capture_output=True, text=True).stdout.strip()
        return h + ("+dirty" if d else "")
    except Exception:
        return "unknown"


if __name__ == "__main__":
    print(json.dumps(sync(), indent=1))
