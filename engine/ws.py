"""Scratch workspace: a byte-for-byte copy of the /repo crates the harnesses need,
re-synchronised from /repo's *current working tree* on every run.

Why a copy and not hooks in /repo: Kani only looks for `#[kani::proof]` items in the
packages it is asked to verify (workspace members), and many units under test are
private to their module (compare/logic/pow kernels, horzcat/vertcat structs, the
loader's helper functions, `detach_variable_value`).  The copy lets us
  * make each mech crate a member of one scratch workspace (the only edit to the
    copied Cargo.toml files is dropping the stand-alone `[workspace]` table), and
  * append one line  `#[cfg(kani)] include!("<gen>/<name>.rs");`  to the end of a
    copied source file, which opens that module to a generated harness file.
Every other byte of every source file is /repo's.  Files are only rewritten when
their content differs, so cargo's mtime fingerprints stay valid between runs and
an edit under /repo rebuilds exactly the crates it touches.
"""
import os, shutil, hashlib, json, sys

REPO = os.environ.get("VERIF_REPO", "/repo")
VERIF = os.path.dirname(os.path.dirname(os.path.abspath(__file__)))
CACHE = os.path.join(VERIF, ".cache")
WS = os.path.join(CACHE, "ws")
GEN = os.path.join(CACHE, "gen")

# scratch member dir  <-  repo dir
CRATES = {
    "core": "src/core",
    "interpreter": "src/interpreter",
    "syntax": "src/syntax",
    "math": "machines/math",
    "compare": "machines/compare",
    "logic": "machines/logic",
    "range": "machines/range",
    "set": "machines/set",
    "matrix": "machines/matrix",
    "stats": "machines/stats",
    "io": "machines/io",
    "combinatorics": "machines/combinatorics",
    "string": "machines/string",
}
PKG = {
    "core": "mech-core", "interpreter": "mech-interpreter", "syntax": "mech-syntax",
    "math": "mech-math", "compare": "mech-compare", "logic": "mech-logic",
    "range": "mech-range", "set": "mech-set", "matrix": "mech-matrix",
    "stats": "mech-stats", "io": "mech-io", "combinatorics": "mech-combinatorics",
    "string": "mech-string",
}
SKIP_DIRS = {"target", ".git", "benches", "tests", "examples"}


def write_if_changed(path, data):
    if isinstance(data, str):
        data = data.encode()
    try:
        with open(path, "rb") as f:
            if f.read() == data:
                return False
    except FileNotFoundError:
        pass
    os.makedirs(os.path.dirname(path), exist_ok=True)
    tmp = path + ".tmp~"
    with open(tmp, "wb") as f:
        f.write(data)
    os.replace(tmp, path)
    return True


def include_line(name):
    return '\n#[cfg(kani)] include!("%s/%s.rs");\n' % (GEN, name)


def sync(includes=None, members=None, vh_files=None, extra_members=None):
    """includes: {(crate, relpath): genname}  -> append an include! of GEN/genname.rs
    vh_files: {relpath: text} for the external harness crate `vh`
    returns dict with sha256 of every hooked source file (for the evidence)."""
    includes = includes or {}
    os.makedirs(WS, exist_ok=True)
    os.makedirs(GEN, exist_ok=True)
    hooked = {}
    changed = 0
    for member, rel in CRATES.items():
        src_root = os.path.join(REPO, rel)
        dst_root = os.path.join(WS, member)
        seen = set()
        for dirpath, dirnames, filenames in os.walk(src_root):
            dirnames[:] = [d for d in dirnames if d not in SKIP_DIRS]
            for fn in filenames:
                sp = os.path.join(dirpath, fn)
                relp = os.path.relpath(sp, src_root)
                dp = os.path.join(dst_root, relp)
                seen.add(dp)
                with open(sp, "rb") as f:
                    data = f.read()
                if relp == "Cargo.toml":
                    txt = data.decode()
                    txt = "\n".join(l for l in txt.split("\n") if l.strip() != "[workspace]")
                    # benches are not copied
                    out = []
                    skip = False
                    for l in txt.split("\n"):
                        if l.strip().startswith("[[bench]]"):
                            skip = True
                            continue
                        if skip and l.strip().startswith("["):
                            skip = False
                        if not skip:
                            out.append(l)
                    data = "\n".join(out).encode()
                key = (member, relp)
                if key in includes:
                    hooked["%s/%s" % (rel, relp)] = hashlib.sha256(data).hexdigest()
                    data = data + include_line(includes[key]).encode()
                if write_if_changed(dp, data):
                    changed += 1
        # remove files that disappeared from /repo
        for dirpath, dirnames, filenames in os.walk(dst_root):
            dirnames[:] = [d for d in dirnames if d not in SKIP_DIRS]
            for fn in filenames:
                p = os.path.join(dirpath, fn)
                if p not in seen and not p.endswith(".tmp~"):
                    os.remove(p)
    for key in includes:
        member, relp = key
        if not os.path.exists(os.path.join(REPO, CRATES[member], relp)):
            raise SystemExit("INCONCLUSIVE: hooked file %s/%s no longer exists in /repo" % (CRATES[member], relp))
    # root manifest
    mem = list(CRATES.keys()) + ["vh"] + list(extra_members or [])
    root = "[workspace]\nresolver = \"3\"\nmembers = [%s]\n\n[patch.crates-io]\n" % ", ".join('"%s"' % m for m in mem)
    for member in CRATES:
        root += '%s = { path = "%s" }\n' % (PKG[member], member)
    root += "\n[profile.dev]\ndebug = false\n"
    write_if_changed(os.path.join(WS, "Cargo.toml"), root)
    lock_src = os.path.join(REPO, "Cargo.lock")
    lock_dst = os.path.join(WS, "Cargo.lock")
    if not os.path.exists(lock_dst):
        shutil.copy(lock_src, lock_dst)
    write_if_changed(os.path.join(WS, ".cargo", "config.toml"),
                     "[net]\noffline = true\n\n[env]\nRUSTC_BOOTSTRAP = \"1\"\n")
    # external harness crate
    vh = os.path.join(WS, "vh")
    for relp, text in (vh_files or {}).items():
        write_if_changed(os.path.join(vh, relp), text)
    return {"hooked_sha256": hooked, "files_rewritten": changed}


def repo_head():
    import subprocess
    try:
        h = subprocess.run(["git", "-C", REPO, "rev-parse", "HEAD"], capture_output=True, text=True).stdout.strip()
        d = subprocess.run(["git", "-C", REPO, "status", "--porcelain"], capture_output=True, text=True).stdout.strip()
        return h + ("+dirty" if d else "")
    except Exception:
        return "unknown"


if __name__ == "__main__":
    print(json.dumps(sync(), indent=1))
