"""setup: create the scratch workspace and warm the Kani build cache (offline)."""
import sys, os, subprocess
sys.path.insert(0, os.path.dirname(os.path.dirname(os.path.abspath(__file__))))
from engine import ws

def main():
    ws.sync()
    print("scratch workspace at", ws.WS)
    return 0

if __name__ == "__main__":
    sys.exit(main())
