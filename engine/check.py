#!/usr/bin/env python3
"""Driver: python3 -m engine.check <PROPERTY> [--tier quick|thorough] [--only REGEX] [--replay PATH]

Exit codes: 0 every obligation proved inside its bound (known findings printed),
            1 a counterexample that reproduces natively and is not a listed known finding (VIOLATION line),
            2 inconclusive (timeout / OOM / vacuous harness / unwinding assertion / non-reproducing counterexample /
              build failure of the harness crate).  2 is never a pass.
"""
import sys, os, json, time, re, argparse, importlib, hashlib, random, subprocess

sys.path.insert(0, os.path.dirname(os.path.dirname(os.path.abspath(__file__))))
from engine import ws, kani, model, replay as replay_mod

VERIF = ws.VERIF
PROPS = ["C01", "C03", "C04", "C05", "C06", "C07", "C11", "C12", "C13", "C14", "C15", "C19", "C20"]

UB_PAT = re.compile(r"dereference failure|pointer (NULL|invalid|outside)|misaligned|deallocated dynamic object|dead object|"
                    r"double free|free argument|pointer relation|same_allocation|object bounds|memcpy|memmove|"
                    r"Kani does not support|unsupported|uninitialized", re.I)
UNWIND_PAT = re.compile(r"unwinding assertion|recursion unwinding", re.I)


def load_known():
    with open(os.path.join(VERIF, "known_findings.json")) as f:
        return json.load(f)


def classify(h, r):
    """-> (verdict, tags) ; verdict in pass|violation|inconclusive ; tags = list of (tag, detail)"""
    if r["status"] == "inconclusive":
        return "inconclusive", [("inconclusive", r.get("reason", ""))]
    tags = []
    inconc = []
    rejected_by_panic = False
    for f in r["failed"]:
        d = f["desc"]
        if UNWIND_PAT.search(d):
            inconc.append(("unwinding", d))
            continue
        m = re.search(r"VP:[A-Za-z0-9_\-:.]+", d)
        if m:
            tags.append((m.group(0), "%s:%s" % (f["file"], f["line"])))
            continue
        if UB_PAT.search(d) or f["category"] in ("unsupported_construct",):
            tags.append(("UB:" + d[:80], "%s:%s in %s" % (f["file"], f["line"], f["function"][:80])))
            continue
        # a panic / overflow / bounds check inside repo or library code
        if h.domain == "reject":
            rejected_by_panic = True
        else:
            tags.append(("PANIC:" + d[:80], "%s:%s in %s" % (f["file"], f["line"], f["function"][:80])))
    if inconc:
        return "inconclusive", inconc
    if r.get("undetermined", 0):
        return "inconclusive", [("undetermined", "%d checks undetermined" % r["undetermined"])]
    # vacuity: the harness' reachability witnesses
    if r.get("covers_unsat", 0) and not tags:
        unsat = r.get("unsat_covers", [])
        if h.domain == "reject":
            # in a reject harness the "returned an error" witness may be unsatisfiable when rejection is by panic
            need = [u for u in unsat if "VP:reached" in u]
            if need or not (rejected_by_panic or r.get("covers_sat", 0)):
                return "inconclusive", [("vacuous", ";".join(unsat))]
        else:
            return "inconclusive", [("vacuous", ";".join(unsat))]
    if h.domain == "reject" and not tags:
        if not rejected_by_panic and r.get("covers_sat", 0) == 0:
            return "inconclusive", [("vacuous", "reject-domain harness shows neither an error return nor a panic")]
    if tags:
        return "violation", tags
    return "pass", []


def match_known(known, prop, h, tag):
    for k in known.get("findings", []):
        if k["property"] != prop:
            continue
        if re.fullmatch(k["harness_key"], h.key) and re.fullmatch(k["tag"], tag):
            return k
    return None


def main():
    ap = argparse.ArgumentParser()
    ap.add_argument("prop")
    ap.add_argument("--tier", default=os.environ.get("VERIF_TIER", "quick"))
    ap.add_argument("--only", default=None, help="regex on harness names (debugging; evidence marks the run partial)")
    ap.add_argument("--replay", default=None)
    ap.add_argument("--jobs", type=int, default=int(os.environ.get("VERIF_JOBS", "14")))
    ap.add_argument("--list", action="store_true")
    ap.add_argument("--no-replay", action="store_true")
    a = ap.parse_args()
    if a.replay:
        sys.exit(replay_mod.replay_file(a.replay))
    prop = a.prop.upper()
    tier = a.tier if a.tier in ("quick", "thorough") else "quick"
    try:
        seed = int(os.environ.get("VERIF_SEED", "0"))
    except ValueError:
        seed = 0
    t0 = time.time()
    mod = importlib.import_module("engine.props." + prop.lower())
    plan = mod.plan(tier, seed)          # dict: harnesses, extracted (optional), notes
    hs = plan["harnesses"]
    names = set()
    for h in hs:
        assert h.name not in names, "duplicate harness " + h.name
        names.add(h.name)
    # tier / seed selection
    rot = [h for h in hs if h.tier == "rot"]
    rng = random.Random(seed)
    rot_sel = set()
    if tier == "quick" and rot:
        groups = {}
        for h in rot:
            groups.setdefault(h.group or h.name, []).append(h)
        frac = plan.get("quick_rot_fraction", 0.25)
        for g, lst in sorted(groups.items()):
            k = max(1, int(round(len(lst) * frac)))
            for h in rng.sample(sorted(lst, key=lambda x: x.name), k):
                rot_sel.add(h.name)
    sel = []
    for h in hs:
        if tier == "thorough":
            sel.append(h)
        elif h.tier == "quick" or (h.tier == "rot" and h.name in rot_sel):
            sel.append(h)
    if a.only:
        sel = [h for h in sel if re.search(a.only, h.name)]
    if a.list:
        for h in sel:
            print(h.name, h.domain, h.key)
        print(len(sel), "of", len(hs))
        return 0
    # lay the harnesses out into files.  Only the selected harnesses are written: kani-compiler generates code for
    # every harness it finds in a package, whatever --harness says, so unselected ones would only cost build time.
    vh_mods = {}
    inc = {}
    for h in sel:
        if h.where == "vh":
            vh_mods.setdefault(prop.lower(), []).append(h)
            h.pkg = "vh"
            h.path = "%s::%s" % (prop.lower(), h.name)
        else:
            crate, relp = h.where
            inc.setdefault((crate, relp), []).append(h)
            h.pkg = ws.PKG[crate]
    includes = {}
    gen_files = {}
    for (crate, relp), lst in inc.items():
        genname = "%s__%s__%s" % (prop.lower(), crate, relp.replace("/", "_").replace(".rs", ""))
        modname = "verif_%s" % prop.lower()
        includes[(crate, relp)] = genname
        modpath = relp[len("src/"):-len(".rs")].replace("/", "::")
        if modpath.endswith("::mod"):
            modpath = modpath[:-5]
        if modpath in ("lib",):
            modpath = ""
        body = plan.get("incrate_prelude", {}).get((crate, relp), "")
        for h in lst:
            h.path = ("%s::%s::%s" % (modpath, modname, h.name)).lstrip(":")
            body += model.render(h, "verif_stub_format") + "\n"
        gen_files[genname] = ("#[allow(warnings)]\npub mod %s {\n  use super::*;\n  use std::mem::forget;\n"
                              "  pub fn verif_stub_format(_a: std::fmt::Arguments<'_>) -> String { String::new() }\n%s\n}\n"
                              % (modname, body))
    # several properties share hooked files: merge with the includes of the other properties that are already
    # generated (one include line per file, which includes a dispatcher file listing all properties' gen files)
    all_includes = merge_includes(prop, includes, gen_files)
    vh_files = build_vh(prop, vh_mods.get(prop.lower(), []), plan)
    info = ws.sync(includes=all_includes, vh_files=vh_files)
    # run, package by package
    by_pkg = {}
    for h in sel:
        by_pkg.setdefault(h.pkg, []).append(h)
    caps = plan.get("caps", {})
    htimeout = caps.get(tier + "_timeout", 300 if tier == "quick" else 1200)
    rss = caps.get("rss_gb", 10)
    results = {}
    metas = []
    logdir = os.path.join(ws.CACHE, "logs")
    os.makedirs(logdir, exist_ok=True)
    for pkg, lst in sorted(by_pkg.items()):
        lp = os.path.join(logdir, "%s-%s-%s.log" % (prop, pkg, tier))
        res, meta = kani.run_kani(pkg, [h.path for h in lst], jobs=a.jobs, harness_timeout=htimeout, rss_cap_gb=rss,
                                  log_path=lp, wall_cap=caps.get(tier + "_wall", 3 * 3600))
        meta["pkg"] = pkg
        meta["log"] = lp
        metas.append(meta)
        if meta["build_failed"]:
            print("INCONCLUSIVE: cargo kani failed for package %s (see %s)" % (pkg, lp))
            print(meta.get("log_tail", "")[-3000:])
        for h in lst:
            results[h.name] = res[h.path]
    # classify
    known = load_known()
    verdicts = {}
    n_pass = n_known = 0
    violations, inconclusive, known_lines = [], [], []
    for h in sel:
        r = results[h.name]
        v, tags = classify(h, r)
        if v == "violation":
            unknown = []
            for tag, detail in tags:
                k = match_known(known, prop, h, tag)
                if k:
                    known_lines.append((k, h, tag))
                else:
                    unknown.append((tag, detail))
            if unknown:
                violations.append((h, unknown))
                verdicts[h.name] = "violation"
            else:
                verdicts[h.name] = "known-finding"
                n_known += 1
        elif v == "inconclusive":
            inconclusive.append((h, tags))
            verdicts[h.name] = "inconclusive"
        else:
            verdicts[h.name] = "pass"
            n_pass += 1
    # known findings that are listed for a harness we ran but did NOT come back must not be printed
    printed = set()
    for k, h, tag in known_lines:
        line = "KNOWN-FINDING: property=%s %s [harness %s, %s]" % (prop, k["what"], h.key, tag)
        if (k["id"]) not in printed:
            print("KNOWN-FINDING: property=%s %s" % (prop, k["what"]))
            printed.add(k["id"])
    # replay the unlisted counterexamples natively before calling them violations
    exit_code = 0
    confirmed = []
    nonrepro = []
    if violations:
        for h, unknown in violations:
            if a.no_replay:
                rp = None
                ok = None
            else:
                rp, ok, detail = replay_mod.confirm(prop, h, unknown, results[h.name], tier)
            if ok or a.no_replay:
                confirmed.append((h, unknown, rp))
            else:
                nonrepro.append((h, unknown, rp, detail))
        for h, unknown, rp in confirmed:
            print("VIOLATION property=%s replay=%s" % (prop, rp or "(replay skipped)"))
            print("  harness %s (%s): %s" % (h.name, h.key, "; ".join("%s @ %s" % u for u in unknown)))
        for h, unknown, rp, detail in nonrepro:
            print("NONREPRODUCING harness=%s %s -- %s" % (h.name, "; ".join(t for t, _ in unknown), detail))
        if confirmed:
            exit_code = 1
        elif nonrepro:
            exit_code = 2
    allowance = 0 if tier == "quick" else plan.get("thorough_inconclusive_allowance", 0.05)
    if inconclusive:
        for h, tags in inconclusive:
            print("INCONCLUSIVE harness=%s %s" % (h.name, "; ".join("%s: %s" % t for t in tags)))
        if exit_code == 0 and len(inconclusive) > allowance * len(sel):
            exit_code = 2
    if not sel:
        print("INCONCLUSIVE: no harness selected")
        exit_code = 2
    wall = time.time() - t0
    # evidence
    solver_s = sum(results[h.name].get("solver_s", 0) for h in sel)
    symex_s = sum(results[h.name].get("symex_s", 0) for h in sel)
    nontrivial = sum(1 for h in sel if results[h.name].get("covers_sat", 0) > 0 or (h.domain == "reject" and verdicts[h.name] in ("pass", "known-finding")))
    obligations = sum(results[h.name].get("checks", 0) for h in sel)
    discharged = sum(results[h.name].get("proved", 0) + results[h.name].get("covers_sat", 0) for h in sel)
    samples = []
    for h in sorted(sel, key=lambda x: hashlib.sha1((str(seed) + x.name).encode()).hexdigest())[:6]:
        r = results[h.name]
        samples.append({"harness": h.path, "package": h.pkg, "domain": h.domain, "key": h.key, "what": h.desc, "bounds": h.bounds,
                        "unwind": h.unwind, "verdict": verdicts[h.name], "cbmc_checks": r.get("checks"),
                        "solver_s": round(r.get("solver_s", 0), 3), "symex_s": round(r.get("symex_s", 0), 3)})
    fns = sorted(set(f for h in sel for f in h.functions))
    assumptions = sorted(set(x for h in sel for x in h.assumptions)) + plan.get("assumptions", [])
    ev = {
        "property_id": prop, "tier": tier, "seed": seed, "level": "model_checking",
        "coverage": {
            "evaluations": len(sel),
            "distinct_nontrivial": nontrivial,
            "rule": "one evaluation = one Kani proof harness (CBMC bounded model checking run over symbolic inputs); counted "
                    "non-trivial when its reachability witness (kani::cover) was SATISFIED, or, for reject-domain harnesses, when "
                    "the rejection itself was observed; harness names are unique so every counted harness is distinct",
            "samples": samples,
            "obligations": obligations,
            "discharged": discharged,
            "explanation": plan.get("explanation", ""),
            "functions_encoded": fns,
            "bounds": plan.get("bounds", ""),
            "outside_the_claim": plan.get("outside", []),
            "stubs": plan.get("stubs", ["std::fmt::format -> returns String::new() (error message text is not the subject)"]),
            "harnesses_total_in_matrix": len(hs),
            "harnesses_run": len(sel),
            "passed": n_pass, "known_finding_harnesses": n_known,
            "inconclusive": [{"harness": h.name, "why": "; ".join("%s: %s" % t for t in tags)} for h, tags in inconclusive],
            "violations": [{"harness": h.name, "tags": [t for t, _ in u], "replay": rp} for h, u, rp in confirmed],
            "nonreproducing": [{"harness": h.name, "tags": [t for t, _ in u]} for h, u, rp, d in nonrepro],
            "known_findings_seen": sorted(printed),
            "solver_time_s": round(solver_s, 2), "symex_time_s": round(symex_s, 2),
            "queries_discharged": discharged,
            "kani_version": metas[0]["kani_version"] if metas else None,
            "cbmc_version": metas[0]["cbmc_version"] if metas else None,
            "runs": [{k: m.get(k) for k in ("pkg", "wall_s", "rc", "timed_out", "killed", "build_failed")} for m in metas],
            "repo_head": ws.repo_head(),
            "source_sha256_of_hooked_files": info["hooked_sha256"],
            "extracted": plan.get("extracted", {}),
            "partial_run_filter": a.only,
            "exhaustive": False,
        },
        "assumptions": assumptions,
        "wall_s": round(wall, 2),
        "violations": len(confirmed),
    }
    os.makedirs(os.path.join(VERIF, "evidence"), exist_ok=True)
    evp = os.path.join(VERIF, "evidence", prop + ".json")
    with open(evp + ".tmp", "w") as f:
        json.dump(ev, f, indent=1)
    os.replace(evp + ".tmp", evp)
    print("%s %s: %d harnesses, %d pass, %d known-finding, %d violation, %d nonreproducing, %d inconclusive; solver %.1fs wall %.0fs -> exit %d"
          % (prop, tier, len(sel), n_pass, n_known, len(confirmed), len(nonrepro), len(inconclusive), solver_s, wall, exit_code))
    return exit_code


def merge_includes(prop, includes, gen_files):
    """Each hooked source file gets ONE include line, pointing at a dispatcher file `hook__<crate>__<file>.rs` that
    includes the per-property generated files that exist for it.  The per-property registry lives in GEN/registry.json."""
    os.makedirs(ws.GEN, exist_ok=True)
    regp = os.path.join(ws.GEN, "registry.json")
    try:
        with open(regp) as f:
            reg = json.load(f)
    except Exception:
        reg = {}
    # drop this property's previous entries
    for k in list(reg.keys()):
        reg[k] = [g for g in reg[k] if not g.startswith(prop.lower() + "__")]
        if not reg[k]:
            del reg[k]
    for (crate, relp), genname in includes.items():
        reg.setdefault("%s|%s" % (crate, relp), []).append(genname)
    for genname, text in gen_files.items():
        ws.write_if_changed(os.path.join(ws.GEN, genname + ".rs"), text)
    out = {}
    for k, gens in sorted(reg.items()):
        crate, relp = k.split("|")
        gens = [g for g in sorted(set(gens)) if os.path.exists(os.path.join(ws.GEN, g + ".rs"))]
        if not gens:
            continue
        hook = "hook__%s__%s" % (crate, relp.replace("/", "_").replace(".rs", ""))
        text = "".join('include!("%s/%s.rs");\n' % (ws.GEN, g) for g in gens)
        ws.write_if_changed(os.path.join(ws.GEN, hook + ".rs"), text)
        out[(crate, relp)] = hook
    with open(regp, "w") as f:
        json.dump(reg, f, indent=1, sort_keys=True)
    return out


VH_CARGO = """[package]
name = "vh"
version = "0.0.0"
edition = "2024"

[lib]
path = "src/lib.rs"

[dependencies]
mech-core = { version = "0.3.5" }
mech-interpreter = { version = "0.3.5" }
mech-math = { version = "0.3.5" }
mech-compare = { version = "0.3.5" }
mech-logic = { version = "0.3.5" }
mech-range = { version = "0.3.5" }
mech-set = { version = "0.3.5" }
nalgebra = "0.34.1"
num-traits = { version = "0.2.19", default-features = false, features = ["libm"] }
num-rational = "0.4.2"
indexmap = "2.13.0"

[lints.rust]
unexpected_cfgs = { level = "allow" }
"""


def build_vh(prop, hs, plan):
    """The external harness crate has one module file per property; lib.rs lists the modules that exist."""
    files = {"Cargo.toml": VH_CARGO}
    vh_src = os.path.join(ws.WS, "vh", "src")
    os.makedirs(vh_src, exist_ok=True)
    if hs:
        body = plan.get("vh_prelude", "")
        for h in hs:
            body += model.render(h, "crate::verif_stub_format") + "\n"
        files["src/%s.rs" % prop.lower()] = "#![allow(warnings)]\nuse std::mem::forget;\n" + body
    mods = set(fn[:-3] for fn in os.listdir(vh_src) if re.fullmatch(r"c\d\d\.rs", fn))
    if hs:
        mods.add(prop.lower())
    else:
        mods.discard(prop.lower())
        p = os.path.join(vh_src, prop.lower() + ".rs")
        if os.path.exists(p):
            os.remove(p)
    lib = "#![allow(warnings)]\n#![feature(ptr_metadata)]\npub fn verif_stub_format(_a: std::fmt::Arguments<'_>) -> String { String::new() }\n"
    for m in sorted(mods):
        lib += "#[cfg(kani)] pub mod %s;\n" % m
    files["src/lib.rs"] = lib
    return files


if __name__ == "__main__":
    sys.exit(main())
