#!/usr/bin/env python3
"""Driver: python3 -m engine.check <PROPERTY> [--tier quick|thorough] [--only REGEX] [--replay PATH]

Exit codes: 0 every obligation proved inside its bound (known findings printed),
            1 a counterexample that reproduces natively and is not a listed known finding (VIOLATION line),
            2 inconclusive (timeout / OOM / vacuous harness / unwinding assertion / non-reproducing counterexample /
              build failure of the harness crate).  2 is never a pass.
"""
import sys, os, json, time, re, argparse, importlib, hashlib, random, subprocess

sys.path.insert(0, os.path.dirname(os.path.dirname(os.path.abspath(__file__))))
from engine import ws, kani, model, replay as replay_mod

VERIF = ws.VERIF
PROPS = ["C01", "C03", "C04", "C05", "C06", "C07", "C11", "C12", "C13", "C14", "C15", "C19", "C20"]

UB_PAT = re.compile(r"dereference failure|pointer (NULL|invalid|outside)|misaligned|deallocated dynamic object|dead object|"
                    r"double free|free argument|pointer relation|same_allocation|object bounds|memcpy|memmove|"
                    r"Kani does not support|unsupported|uninitialized", re.I)
UNWIND_PAT = re.compile(r"unwinding assertion|recursion unwinding", re.I)


def load_known():
    with open(os.path.join(VERIF, "known_findings.json")) as f:
        return json.load(f)


def classify(h, r):
    """-> (verdict, tags) ; verdict in pass|violation|inconclusive ; tags = list of (tag, detail)"""
    if r["status"] == "inconclusive":
        return "inconclusive", [("inconclusive", r.get("reason", ""))]
    tags = []
    inconc = []
    rejected_by_panic = False
    for f in r["failed"]:
        d = f["desc"]
        if UNWIND_PAT.search(d) or f.get("category") in ("unwind", "recursion"):
            if getattr(h, "nonterm_is_violation", False):
                # the harness body has no data-dependent loop: exceeding the bound means unbounded recursion / looping
                tags.append(("NONTERM:" + d[:60], "%s:%s in %s" % (f["file"], f["line"], f["function"][:80])))
            else:
                inconc.append(("unwinding", d))
            continue
        if "caller_location is not currently supported" in d and not getattr(h, "stub_loc", False):
            # MechError::with_compiler_loc() (#[track_caller]) is where every error value of the repo is finished; Kani
            # cuts the path there.  Reaching it means: this call is about to return Err.
            if h.domain == "reject":
                rejected_by_panic = True
            else:
                tags.append(("VP:rejected-by-error-return", "%s:%s in %s" % (f["file"], f["line"], f["function"][:80])))
            continue
        m = re.search(r"VP:[A-Za-z0-9_\-:.]+", d)
        if m:
            tags.append((m.group(0), "%s:%s" % (f["file"], f["line"])))
            continue
        if UB_PAT.search(d) or f["category"] in ("unsupported_construct",):
            tags.append(("UB:" + d[:80], "%s:%s in %s" % (f["file"], f["line"], f["function"][:80])))
            continue
        # a panic / overflow / bounds check inside repo or library code
        if h.domain == "reject":
            rejected_by_panic = True
        else:
            tags.append(("PANIC:" + d[:80], "%s:%s in %s" % (f["file"], f["line"], f["function"][:80])))
    if inconc:
        return "inconclusive", inconc
    if r.get("undetermined", 0):
        return "inconclusive", [("undetermined", "%d checks undetermined" % r["undetermined"])]
    # vacuity: the harness' reachability witnesses
    if r.get("covers_unsat", 0) and not tags:
        unsat = r.get("unsat_covers", [])
        if h.domain == "reject":
            # in a reject harness the "returned an error" witness may be unsatisfiable when rejection is by panic
            need = [u for u in unsat if "VP:reached" in u]
            if need or not (rejected_by_panic or r.get("covers_sat", 0)):
                return "inconclusive", [("vacuous", ";".join(unsat))]
        else:
            return "inconclusive", [("vacuous", ";".join(unsat))]
    if h.domain == "reject" and not tags:
        if not rejected_by_panic and r.get("covers_sat", 0) == 0:
            return "inconclusive", [("vacuous", "reject-domain harness shows neither an error return nor a panic")]
    if tags:
        return "violation", tags
    return "pass", []


def match_known(known, prop, h, tag):
    for k in known.get("findings", []):
        if k["property"] != prop:
            continue
        if re.fullmatch(k["harness_key"], h.key) and re.fullmatch(k["tag"], tag):
            return k
    return None


def main():
    import signal
    signal.signal(signal.SIGTERM, kani.kill_live)
    signal.signal(signal.SIGINT, kani.kill_live)
    ap = argparse.ArgumentParser()
    ap.add_argument("prop")
    ap.add_argument("--tier", default=os.environ.get("VERIF_TIER", "quick"))
    ap.add_argument("--only", default=None, help="regex on harness names (debugging; evidence marks the run partial)")
    ap.add_argument("--replay", default=None)
    ap.add_argument("--jobs", type=int, default=int(os.environ.get("VERIF_JOBS", "14")))
    ap.add_argument("--list", action="store_true")
    ap.add_argument("--no-replay", action="store_true")
    a = ap.parse_args()
    if a.replay:
        sys.exit(replay_mod.replay_file(a.replay))
    prop = a.prop.upper()
    tier = a.tier if a.tier in ("quick", "thorough") else "quick"
    try:
        seed = int(os.environ.get("VERIF_SEED", "0"))
    except ValueError:
        seed = 0
    t0 = time.time()
    mod = importlib.import_module("engine.props." + prop.lower())
    plan = mod.plan(tier, seed)          # dict: harnesses, extracted (optional), notes
    hs = plan["harnesses"]
    names = set()
    for h in hs:
        assert h.name not in names, "duplicate harness " + h.name
        names.add(h.name)
    # tier / seed selection
    rot = [h for h in hs if h.tier == "rot"]
    rng = random.Random(seed)
    rot_sel = set()
    if tier == "quick" and rot:
        groups = {}
        for h in rot:
            groups.setdefault(h.group or h.name, []).append(h)
        frac = plan.get("quick_rot_fraction", 0.25)
        for g, lst in sorted(groups.items()):
            k = max(1, int(round(len(lst) * frac)))
            for h in rng.sample(sorted(lst, key=lambda x: x.name), k):
                rot_sel.add(h.name)
    sel = []
    off = [h for h in hs if h.tier == "off"]
    for h in hs:
        if h.tier == "off" and not os.environ.get("VERIF_ALL"):
            continue             # generators kept for the record: measured to get no verdict (see `excluded_no_verdict` in the evidence)
        if tier == "thorough":
            sel.append(h)
        elif h.tier == "quick" or (h.tier == "rot" and h.name in rot_sel):
            sel.append(h)
    if a.only:
        sel = [h for h in sel if re.search(a.only, h.name)]
    if a.list:
        for h in sel:
            print(h.name, h.domain, h.key)
        print(len(sel), "of", len(hs))
        return 0
    # lay the harnesses out.  Only the harnesses of the group being run are written into the hook files: kani-compiler
    # generates code for every harness it finds in a package, whatever --harness says.
    ws.lock()
    info = ws.sync()
    modname = "verif_%s" % prop.lower()
    groups = {}
    standalone = plan.get("standalone", {})
    for h in sel:
        crate, relp = h.where
        if crate in standalone:
            h.pkg = standalone[crate]["pkg"]
            h.path = "verif_%s::%s" % (prop.lower(), h.name)
            groups.setdefault((crate, h.slice), []).append(h)
            continue
        if relp not in ws.HOOKS.get(crate, []):
            raise SystemExit("INCONCLUSIVE: %s/%s is not a hookable file (engine/ws.py HOOKS)" % (crate, relp))
        h.pkg = ws.hpkg(crate)
        modpath = relp[len("src/"):-len(".rs")].replace("/", "::")
        if modpath.endswith("::mod"):
            modpath = modpath[:-5]
        if modpath == "lib":
            modpath = ""
        h.path = ("%s::%s::%s" % (modpath, modname, h.name)).lstrip(":")
        groups.setdefault((crate, h.slice), []).append(h)
    caps = plan.get("caps", {})
    htimeout = caps.get(tier + "_timeout", 300 if tier == "quick" else 1200)
    rss = caps.get("rss_gb", 10)
    if os.environ.get("VERIF_RSS_GB"):
        rss = float(os.environ["VERIF_RSS_GB"])
        caps = dict(caps, heavy_rss_gb=rss)
    results = {}
    metas = []
    logdir = os.path.join(ws.CACHE, "logs")
    os.makedirs(logdir, exist_ok=True)
    n = 0
    for (crate, slc), lst in sorted(groups.items(), key=lambda kv: (kv[0][0], kv[0][1] or "")):
        n += 1
        gens = {}
        for h in lst:
            gens.setdefault(h.where[1], []).append(h)
        texts = {}
        for relp, hl in gens.items():
            texts[relp] = model.module_text(prop, hl, "  use paste::paste;\n" + plan.get("incrate_prelude", {}).get((crate, relp), ""))
        tag = "%s-%s-%d-%s" % (prop, crate, n, tier)
        extra = ["--no-default-features", "--features", slc] if slc else []
        heavy = any(getattr(h, "heavy", False) for h in lst)
        if crate in standalone:
            sa = standalone[crate]
            ws.write_standalone(crate, sa["pkg"], sa["cargo"], sa["lib_prelude"] + model.module_text(prop, lst, sa.get("mod_prelude", "")))
            pkgname = sa["pkg"]
        else:
            ws.set_hooks(crate, texts)
            pkgname = ws.hpkg(crate)
        res, meta = kani.run_group(pkgname, lst, extra, min(a.jobs, caps.get("heavy_jobs", 5)) if heavy else a.jobs, htimeout,
                                   caps.get("heavy_rss_gb", 10) if heavy else rss, os.path.join(logdir, tag), tag)
        meta["slice"] = slc
        meta["harnesses"] = len(lst)
        metas.append(meta)
        if meta["build_failed"]:
            print("INCONCLUSIVE: cargo kani --only-codegen failed for package %s slice %s (see %s)" % (ws.hpkg(crate), slc, meta["build_log"]))
            print(meta.get("log_tail", "")[-3000:])
        for h in lst:
            results[h.name] = res[h.name]
    # classify
    known = load_known()
    verdicts = {}
    n_pass = n_known = 0
    violations, inconclusive, known_lines = [], [], []
    for h in sel:
        r = results[h.name]
        v, tags = classify(h, r)
        if v == "violation" and plan.get("tag_filter"):
            # this property only owns some of the assertions of a shared harness; the others are decided under their own property
            dropped = [t for t, d in tags if not re.fullmatch(plan["tag_filter"], t)]
            tags = [(t, d) for t, d in tags if re.fullmatch(plan["tag_filter"], t)]
            if not tags:
                v = "pass"
                # the failures that were filtered out belong to another property - but if they (or anything else) kept the harness from
                # reaching its witnesses, nothing was decided here either: vacuous, never a pass
                if r.get("covers_unsat", 0):
                    v, tags = "inconclusive", [("vacuous", "%s unsatisfied after failures owned by another property: %s"
                                                % (";".join(r.get("unsat_covers", [])), "; ".join(dropped)[:300]))]
        if v == "violation":
            unknown = []
            for tag, detail in tags:
                k = match_known(known, prop, h, tag)
                if k:
                    known_lines.append((k, h, tag))
                else:
                    unknown.append((tag, detail))
            if unknown:
                violations.append((h, unknown))
                verdicts[h.name] = "violation"
            else:
                verdicts[h.name] = "known-finding"
                n_known += 1
        elif v == "inconclusive":
            inconclusive.append((h, tags))
            verdicts[h.name] = "inconclusive"
        else:
            verdicts[h.name] = "pass"
            n_pass += 1
    # known findings that are listed for a harness we ran but did NOT come back must not be printed
    printed = set()
    for k, h, tag in known_lines:
        line = "KNOWN-FINDING: property=%s %s [harness %s, %s]" % (prop, k["what"], h.key, tag)
        if (k["id"]) not in printed:
            print("KNOWN-FINDING: property=%s %s" % (prop, k["what"]))
            printed.add(k["id"])
    # replay the unlisted counterexamples natively before calling them violations
    exit_code = 0
    confirmed = []
    nonrepro = []
    if violations:
        # Native replay goes through kani-driver (a second, slower verification run that prints the concrete values, then
        # `cargo kani playback` in dev and release): 15-40 minutes per harness.  The cheapest VERIF_MAX_REPLAYS (default 2)
        # counterexamples are replayed; the others are reported with the solver's counterexample only (record says so).
        max_replays = int(os.environ.get("VERIF_MAX_REPLAYS", "2"))
        order = sorted(violations, key=lambda hv: results[hv[0].name].get("wall_s", 0))
        replayed = 0
        for h, unknown in order:
            if a.no_replay:
                rp = None
                ok = None
            elif replayed >= max_replays:
                rp = replay_mod.solver_only_record(prop, h, unknown, results[h.name], plan)
                ok = True
            else:
                replayed += 1
                rp, ok, detail = replay_mod.confirm(prop, h, unknown, results[h.name], tier, plan)
            if ok or a.no_replay:
                confirmed.append((h, unknown, rp))
            else:
                nonrepro.append((h, unknown, rp, detail))
        for h, unknown, rp in confirmed:
            print("VIOLATION property=%s replay=%s" % (prop, rp or "(replay skipped)"))
            print("  harness %s (%s): %s" % (h.name, h.key, "; ".join("%s @ %s" % u for u in unknown)))
        for h, unknown, rp, detail in nonrepro:
            print("NONREPRODUCING harness=%s %s -- %s" % (h.name, "; ".join(t for t, _ in unknown), detail))
        if confirmed:
            exit_code = 1
        elif nonrepro:
            exit_code = 2
    allowance = 0 if tier == "quick" else plan.get("thorough_inconclusive_allowance", 0.05)
    if inconclusive:
        for h, tags in inconclusive:
            print("INCONCLUSIVE harness=%s %s" % (h.name, "; ".join("%s: %s" % t for t in tags)))
        if exit_code == 0 and len(inconclusive) > allowance * len(sel):
            exit_code = 2
    if not sel:
        print("INCONCLUSIVE: no harness selected")
        exit_code = 2
    wall = time.time() - t0
    # evidence
    solver_s = sum(results[h.name].get("solver_s", 0) for h in sel)
    symex_s = sum(results[h.name].get("symex_s", 0) for h in sel)
    nontrivial = sum(1 for h in sel if results[h.name].get("covers_sat", 0) > 0 or (h.domain == "reject" and verdicts[h.name] in ("pass", "known-finding")))
    obligations = sum(results[h.name].get("checks", 0) for h in sel)
    discharged = sum(results[h.name].get("proved", 0) + results[h.name].get("covers_sat", 0) for h in sel)
    samples = []
    for h in sorted(sel, key=lambda x: hashlib.sha1((str(seed) + x.name).encode()).hexdigest())[:6]:
        r = results[h.name]
        samples.append({"harness": h.path, "package": h.pkg, "domain": h.domain, "key": h.key, "what": h.desc, "bounds": h.bounds,
                        "unwind": h.unwind, "verdict": verdicts[h.name], "cbmc_checks": r.get("checks"),
                        "solver_s": round(r.get("solver_s", 0), 3), "symex_s": round(r.get("symex_s", 0), 3)})
    fns = sorted(set(f for h in sel for f in h.functions))
    assumptions = sorted(set(x for h in sel for x in h.assumptions)) + plan.get("assumptions", [])
    ev = {
        "property_id": prop, "tier": tier, "seed": seed, "level": "model_checking",
        "coverage": {
            "evaluations": len(sel),
            "distinct_nontrivial": nontrivial,
            "rule": "one evaluation = one Kani proof harness (CBMC bounded model checking run over symbolic inputs); counted "
                    "non-trivial when its reachability witness (kani::cover) was SATISFIED, or, for reject-domain harnesses, when "
                    "the rejection itself was observed; harness names are unique so every counted harness is distinct",
            "samples": samples,
            "obligations": obligations,
            "discharged": discharged,
            "explanation": plan.get("explanation", ""),
            "functions_encoded": fns,
            "bounds": plan.get("bounds", ""),
            "outside_the_claim": plan.get("outside", []),
            "stubs": plan.get("stubs", ["std::fmt::format -> returns String::new() (error message text is not the subject)"]),
            "harnesses_total_in_matrix": len(hs) - len(off),
            "excluded_no_verdict": [{"harness": h.name, "key": h.key, "why": getattr(h, "off_reason", "no verdict within 900 s / 10 GB when measured")} for h in off],
            "harnesses_run": len(sel),
            "passed": n_pass, "known_finding_harnesses": n_known,
            "inconclusive": [{"harness": h.name, "why": "; ".join("%s: %s" % t for t in tags)} for h, tags in inconclusive],
            "violations": [{"harness": h.name, "tags": [t for t, _ in u], "replay": rp} for h, u, rp in confirmed],
            "nonreproducing": [{"harness": h.name, "tags": [t for t, _ in u]} for h, u, rp, d in nonrepro],
            "known_findings_seen": sorted(printed),
            "solver_time_s": round(solver_s, 2), "symex_time_s": round(symex_s, 2),
            "queries_discharged": discharged,
            "tool_versions": kani.versions(),
            "build_settings": {
                "enum_layout": "#[cfg_attr(kani, repr(u8))] added to %s in the scratch copies (explicit tags instead of rustc's niche "
                               "layout; see ws.REPR_PATCH)" % ", ".join(sorted(x.replace("pub enum ", "").replace(" {", "") for v in ws.REPR_PATCH.values() for x in v)),
                "cbmc_field_sensitivity_array_size": kani.FS_ARRAY_DEFAULT,
                "vtable_restriction": "kani -Z restrict-vtable: dyn call sites limited to the trait's implementors" if kani.RESTRICT_VTABLE else "off",
                "unwinding_assertions": True, "assertion_reach_checks": False,
            },
            "runs": [{k: m.get(k) for k in ("pkg", "slice", "harnesses", "build_wall_s", "verify_wall_s", "build_failed")} for m in metas],
            "repo_head": ws.repo_head(),
            "source_sha256_of_hooked_files": info["hooked_sha256"],
            "extracted": plan.get("extracted", {}),
            "partial_run_filter": a.only,
            "exhaustive": False,
        },
        "assumptions": assumptions,
        "wall_s": round(wall, 2),
        "violations": len(confirmed),
    }
    # a filtered run (--only) is a development / seed-testing aid: its coverage record must not replace the evidence of the
    # registered commands
    evdir = os.path.join(VERIF, "evidence") if not a.only else os.path.join(ws.CACHE, "evidence_partial")
    evdir = os.environ.get("VERIF_EVIDENCE_DIR", evdir)
    os.makedirs(evdir, exist_ok=True)
    evp = os.path.join(evdir, prop + ".json")
    with open(evp + ".tmp", "w") as f:
        json.dump(ev, f, indent=1)
    os.replace(evp + ".tmp", evp)
    print("%s %s: %d harnesses, %d pass, %d known-finding, %d violation, %d nonreproducing, %d inconclusive; solver %.1fs wall %.0fs -> exit %d"
          % (prop, tier, len(sel), n_pass, n_known, len(confirmed), len(nonrepro), len(inconclusive), solver_s, wall, exit_code))
    return exit_code


if __name__ == "__main__":
    try:
        rc = main()
    except SystemExit as e:
        # the generators and the workspace code stop with `SystemExit("INCONCLUSIVE: <why>")` when the source no longer has the shape
        # they extract from (renamed function, missing macro arm ...).  That is "no verdict" (exit 2), never a violation (exit 1),
        # and the reason belongs on stdout next to the other result lines.
        if isinstance(e.code, str):
            print(e.code if e.code.startswith("INCONCLUSIVE") else "INCONCLUSIVE: " + e.code)
            rc = 2
        else:
            raise
    except Exception:
        # a crash of the machinery is "no verdict" (exit 2); exit 1 is reserved for a reproduced violation
        import traceback
        print("INCONCLUSIVE: the check itself failed:\n" + traceback.format_exc())
        rc = 2
    sys.exit(rc)
