//! VERIFICATION MODEL of `indexmap::set` (compiled only under `cfg(kani)`; see /verif/engine/ws.py INDEXMAP_MODEL).
//!
//! `IndexSet<T, S>` is modelled as an insertion-ordered `Vec<T>` without duplicates; membership is decided with `==`
//! by linear scan.  For an element type whose `Hash` agrees with its `Eq` (a == b implies hash(a) == hash(b) - this is what
//! the C14 hash-eq harnesses decide for `Value`) the real hash-indexed implementation is observationally the same container:
//! same membership, same length, same iteration order (insertion order; `shift_remove` keeps the order of the rest).  The
//! hash function, the hashbrown index table and the capacity are not modelled - CBMC gets no verdict on hashbrown's SIMD
//! group probing (DESIGN A.4), which is why this model exists.  Everything that *uses* the container is mech's real code.
use alloc::vec::Vec;
use core::fmt;
use core::hash::{BuildHasher, Hash};
use core::marker::PhantomData;
use equivalent::Equivalent;

#[cfg(feature = "std")]
use std::hash::RandomState;

#[cfg(feature = "std")]
pub struct IndexSet<T, S = RandomState> {
    pub(crate) items: Vec<T>,
    marker: PhantomData<S>,
}
#[cfg(not(feature = "std"))]
pub struct IndexSet<T, S> {
    pub(crate) items: Vec<T>,
    marker: PhantomData<S>,
}

/// placeholder for `indexmap::set::Slice` (only named by indexmap's own serde glue)
pub struct Slice<T> {
    items: [T],
}
impl<'a, T> IntoIterator for &'a Slice<T> {
    type Item = &'a T;
    type IntoIter = Iter<'a, T>;
    fn into_iter(self) -> Iter<'a, T> {
        Iter { inner: self.items.iter() }
    }
}

pub struct Iter<'a, T> {
    inner: core::slice::Iter<'a, T>,
}
impl<'a, T> Iterator for Iter<'a, T> {
    type Item = &'a T;
    fn next(&mut self) -> Option<&'a T> {
        self.inner.next()
    }
    fn size_hint(&self) -> (usize, Option<usize>) {
        self.inner.size_hint()
    }
}
impl<T> DoubleEndedIterator for Iter<'_, T> {
    fn next_back(&mut self) -> Option<Self::Item> {
        self.inner.next_back()
    }
}
impl<T> ExactSizeIterator for Iter<'_, T> {
    fn len(&self) -> usize {
        self.inner.len()
    }
}
impl<T> Clone for Iter<'_, T> {
    fn clone(&self) -> Self {
        Iter { inner: self.inner.clone() }
    }
}

pub struct IntoIter<T> {
    inner: alloc::vec::IntoIter<T>,
}
impl<T> Iterator for IntoIter<T> {
    type Item = T;
    fn next(&mut self) -> Option<T> {
        self.inner.next()
    }
    fn size_hint(&self) -> (usize, Option<usize>) {
        self.inner.size_hint()
    }
}
impl<T> ExactSizeIterator for IntoIter<T> {
    fn len(&self) -> usize {
        self.inner.len()
    }
}

#[cfg(feature = "std")]
impl<T> IndexSet<T> {
    pub fn new() -> Self {
        IndexSet { items: Vec::new(), marker: PhantomData }
    }
    pub fn with_capacity(n: usize) -> Self {
        let _ = n; // capacity is not modelled (it is not observable through the set API mech uses)
        IndexSet { items: Vec::new(), marker: PhantomData }
    }
}

impl<T, S> IndexSet<T, S> {
    pub fn with_capacity_and_hasher(n: usize, hash_builder: S) -> Self {
        let _ = (n, hash_builder);
        IndexSet { items: Vec::new(), marker: PhantomData }
    }
    pub fn with_hasher(hash_builder: S) -> Self {
        let _ = hash_builder;
        IndexSet { items: Vec::new(), marker: PhantomData }
    }
    /// MODEL-ONLY constructor for harnesses: a set holding exactly `items`, which the caller guarantees (by `kani::assume`) to be
    /// pairwise distinct.  Lets a harness start from an arbitrary valid set state of known size without running `insert`.
    pub fn vp_from_distinct_vec(items: Vec<T>) -> Self
    where
        S: Default,
    {
        IndexSet { items, marker: PhantomData }
    }
    pub fn len(&self) -> usize {
        self.items.len()
    }
    pub fn is_empty(&self) -> bool {
        self.items.is_empty()
    }
    pub fn iter(&self) -> Iter<'_, T> {
        Iter { inner: self.items.iter() }
    }
    pub fn clear(&mut self) {
        self.items.clear();
    }
    pub fn first(&self) -> Option<&T> {
        self.items.first()
    }
    pub fn last(&self) -> Option<&T> {
        self.items.last()
    }
    pub fn get_index(&self, index: usize) -> Option<&T> {
        self.items.get(index)
    }
    pub fn reserve(&mut self, additional: usize) {
        let _ = additional;
    }
}

impl<T, S> IndexSet<T, S>
where
    T: Hash + Eq,
    S: BuildHasher,
{
    pub fn get_index_of<Q>(&self, value: &Q) -> Option<usize>
    where
        Q: ?Sized + Hash + Equivalent<T>,
    {
        let mut i = 0;
        while i < self.items.len() {
            if value.equivalent(&self.items[i]) {
                return Some(i);
            }
            i += 1;
        }
        None
    }
    pub fn contains<Q>(&self, value: &Q) -> bool
    where
        Q: ?Sized + Hash + Equivalent<T>,
    {
        self.get_index_of(value).is_some()
    }
    pub fn get<Q>(&self, value: &Q) -> Option<&T>
    where
        Q: ?Sized + Hash + Equivalent<T>,
    {
        match self.get_index_of(value) {
            Some(i) => Some(&self.items[i]),
            None => None,
        }
    }
    pub fn insert_full(&mut self, value: T) -> (usize, bool) {
        match self.get_index_of(&value) {
            Some(i) => (i, false),
            None => {
                self.items.push(value);
                (self.items.len() - 1, true)
            }
        }
    }
    pub fn insert(&mut self, value: T) -> bool {
        self.insert_full(value).1
    }
    pub fn shift_remove<Q>(&mut self, value: &Q) -> bool
    where
        Q: ?Sized + Hash + Equivalent<T>,
    {
        match self.get_index_of(value) {
            Some(i) => {
                self.items.remove(i);
                true
            }
            None => false,
        }
    }
    pub fn swap_remove<Q>(&mut self, value: &Q) -> bool
    where
        Q: ?Sized + Hash + Equivalent<T>,
    {
        match self.get_index_of(value) {
            Some(i) => {
                self.items.swap_remove(i);
                true
            }
            None => false,
        }
    }
    pub fn is_subset<S2: BuildHasher>(&self, other: &IndexSet<T, S2>) -> bool {
        self.len() <= other.len() && self.iter().all(move |value| other.contains(value))
    }
    pub fn is_superset<S2: BuildHasher>(&self, other: &IndexSet<T, S2>) -> bool {
        other.is_subset(self)
    }
    pub fn is_disjoint<S2: BuildHasher>(&self, other: &IndexSet<T, S2>) -> bool {
        self.iter().all(move |value| !other.contains(value))
    }
    /// values of `self` not in `other`, in `self`'s order
    pub fn difference<'a, S2: BuildHasher>(&'a self, other: &'a IndexSet<T, S2>) -> impl Iterator<Item = &'a T> + 'a {
        self.iter().filter(move |v| !other.contains(*v))
    }
    /// values of `self` that are in `other`, in `self`'s order
    pub fn intersection<'a, S2: BuildHasher>(&'a self, other: &'a IndexSet<T, S2>) -> impl Iterator<Item = &'a T> + 'a {
        self.iter().filter(move |v| other.contains(*v))
    }
    /// all of `self`, then the values of `other` not in `self`
    pub fn union<'a, S2: BuildHasher>(&'a self, other: &'a IndexSet<T, S2>) -> impl Iterator<Item = &'a T> + 'a {
        self.iter().chain(other.iter().filter(move |v| !self.contains(*v)))
    }
    /// `self - other`, then `other - self`
    pub fn symmetric_difference<'a, S2: BuildHasher>(&'a self, other: &'a IndexSet<T, S2>) -> impl Iterator<Item = &'a T> + 'a {
        self.iter().filter(move |v| !other.contains(*v)).chain(other.iter().filter(move |v| !self.contains(*v)))
    }
}

impl<T: Clone, S> Clone for IndexSet<T, S> {
    fn clone(&self) -> Self {
        IndexSet { items: self.items.clone(), marker: PhantomData }
    }
}
impl<T: fmt::Debug, S> fmt::Debug for IndexSet<T, S> {
    fn fmt(&self, f: &mut fmt::Formatter<'_>) -> fmt::Result {
        f.debug_set().entries(self.iter()).finish()
    }
}
impl<T, S: Default> Default for IndexSet<T, S> {
    fn default() -> Self {
        IndexSet { items: Vec::new(), marker: PhantomData }
    }
}
impl<T, S1, S2> PartialEq<IndexSet<T, S2>> for IndexSet<T, S1>
where
    T: Hash + Eq,
    S1: BuildHasher,
    S2: BuildHasher,
{
    fn eq(&self, other: &IndexSet<T, S2>) -> bool {
        self.len() == other.len() && self.is_subset(other)
    }
}
impl<T: Eq + Hash, S: BuildHasher> Eq for IndexSet<T, S> {}

impl<T, S> FromIterator<T> for IndexSet<T, S>
where
    T: Hash + Eq,
    S: BuildHasher + Default,
{
    fn from_iter<I: IntoIterator<Item = T>>(iterable: I) -> Self {
        let mut set = IndexSet { items: Vec::new(), marker: PhantomData };
        for v in iterable {
            set.insert(v);
        }
        set
    }
}
impl<T, S> Extend<T> for IndexSet<T, S>
where
    T: Hash + Eq,
    S: BuildHasher,
{
    fn extend<I: IntoIterator<Item = T>>(&mut self, iterable: I) {
        for v in iterable {
            self.insert(v);
        }
    }
}
impl<'a, T, S> IntoIterator for &'a IndexSet<T, S> {
    type Item = &'a T;
    type IntoIter = Iter<'a, T>;
    fn into_iter(self) -> Iter<'a, T> {
        self.iter()
    }
}
impl<T, S> IntoIterator for IndexSet<T, S> {
    type Item = T;
    type IntoIter = IntoIter<T>;
    fn into_iter(self) -> IntoIter<T> {
        IntoIter { inner: self.items.into_iter() }
    }
}
impl<T, S> core::ops::Index<usize> for IndexSet<T, S> {
    type Output = T;
    fn index(&self, index: usize) -> &T {
        &self.items[index]
    }
}
