"""markdown table of the seeded changes and what the checks said (from seeded/*/detection.json and confirmed.json)"""
import os, json
VERIF = os.path.dirname(os.path.dirname(os.path.abspath(__file__)))


def main():
    sdir = os.path.join(VERIF, "seeded")
    print("| seed | change | needs | confirmed by us | check run | result |")
    print("|------|--------|-------|-----------------|-----------|--------|")
    for seed in sorted(os.listdir(sdir)):
        d = os.path.join(sdir, seed)
        meta = {}
        try:
            meta = json.load(open(os.path.join(d, "meta.json")))
        except Exception:
            pass
        conf = ""
        try:
            c = json.load(open(os.path.join(d, "confirmed.json")))
            conf = "yes" if c.get("confirmed") else "NO"
        except Exception:
            conf = "reverse of a fix commit" if seed.startswith("REVERT-") else "-"
        det = []
        try:
            det = json.load(open(os.path.join(d, "detection.json")))
        except Exception:
            pass
        what = str(meta.get("what_breaks", meta.get("what", "")))[:160].replace("|", "/").replace("\n", " ")
        needs = str(meta.get("needs_to_manifest", ""))[:120].replace("|", "/").replace("\n", " ")
        last = {}
        for r in det:
            if r["exit"] == 1 and not any(l.startswith("VIOLATION") for l in r.get("lines", [])):
                continue        # the check process itself crashed (no result line): not a detection result
            last[(r["check"], r.get("only"), r.get("tier"))] = r
        if not last:
            print("| %s | %s | %s | %s | - | not run |" % (seed, what, needs, conf))
        for (chk, only, tier), r in last.items():
            res = {0: "MISSED (exit 0)", 1: "caught (VIOLATION)", 2: "inconclusive (exit 2)"}.get(r["exit"], str(r["exit"]))
            print("| %s | %s | %s | %s | %s %s `--only %s` | %s |" % (seed, what, needs, conf, chk, tier, only, res))


if __name__ == "__main__":
    main()
