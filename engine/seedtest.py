"""Apply a seeded change to /repo, run one check (optionally only some harnesses), undo the change, and record the outcome.

usage: python3 -m engine.seedtest <seed-dir> <PROP> [--tier quick|thorough] [--only REGEX]
The outcome (exit code, VIOLATION lines) is appended to <seed-dir>/detection.json.  /repo is always restored with
`git checkout -- .` (the change is never committed)."""
import sys, os, subprocess, json, time, argparse

VERIF = os.path.dirname(os.path.dirname(os.path.abspath(__file__)))


def main():
    ap = argparse.ArgumentParser()
    ap.add_argument("seed")
    ap.add_argument("prop")
    ap.add_argument("--tier", default="quick")
    ap.add_argument("--only", default=None)
    ap.add_argument("--seedval", default="0")
    ap.add_argument("--repo", default=os.environ.get("VERIF_REPO", "/repo"),
                    help="checkout to patch and check (default /repo; a scratch git worktree of /repo lets seed runs go on beside other work)")
    a = ap.parse_args()
    sd = os.path.join(VERIF, "seeded", a.seed) if not os.path.isabs(a.seed) else a.seed
    patch = os.path.join(sd, "patch.diff")
    st = subprocess.run(["git", "-C", a.repo, "status", "--porcelain"], capture_output=True, text=True).stdout.strip()
    if st:
        print("refusing: %s working tree is not clean:\n" % a.repo + st)
        return 2
    r = subprocess.run(["git", "-C", a.repo, "apply", patch], capture_output=True, text=True)
    if r.returncode != 0:
        print("patch does not apply:", r.stderr)
        return 2
    t0 = time.time()
    try:
        cmd = [sys.executable, "-m", "engine.check", a.prop, "--tier", a.tier]
        if a.only:
            cmd += ["--only", a.only]
        env = dict(os.environ, VERIF_SEED=a.seedval, VERIF_REPO=a.repo)
        p = subprocess.run(cmd, cwd=VERIF, capture_output=True, text=True, env=env)
        out = p.stdout
    finally:
        subprocess.run(["git", "-C", a.repo, "checkout", "--", "."], check=True)
    viol = [l for l in out.splitlines() if l.startswith("VIOLATION") or l.startswith("  harness ") or l.startswith("NONREPRODUCING")]
    rec = {"repo": a.repo, "repo_head": subprocess.run(["git", "-C", a.repo, "rev-parse", "--short", "HEAD"], capture_output=True, text=True).stdout.strip(), "check": a.prop, "tier": a.tier, "only": a.only, "seed": a.seedval, "exit": p.returncode, "wall_s": round(time.time() - t0),
           "lines": viol[:12], "summary": out.strip().splitlines()[-1] if out.strip() else "",
           "stderr_tail": "\n".join(l for l in (p.stderr or "").splitlines() if "conda" not in l)[-1500:] if p.returncode not in (0, 1, 2) or not out.strip() else ""}
    dp = os.path.join(sd, "detection.json")
    try:
        with open(dp) as f:
            d = json.load(f)
    except Exception:
        d = []
    d.append(rec)
    with open(dp, "w") as f:
        json.dump(d, f, indent=1)
    print(json.dumps(rec, indent=1))
    return 0


if __name__ == "__main__":
    sys.exit(main())
