"""Which check (and which harnesses) is expected to notice each seeded change.  `python3 -m engine.seedplan [seed ...]` runs
engine.seedtest for every entry (sequentially: they share the scratch workspace) and prints a table."""
import sys, subprocess, os, json

PLAN = [
    ("C01-1", "C01", "c01_l1_sub_.*_rd_md"),
    ("C03-1", "C03", "md2x3_s_v2_", "thorough"),
    ("C04-1", "C04", "_s_a_s_"),
    ("C06-1", "C07", "const_encode_string"),
    ("C07-1", "C07", "vararg"),
    ("C07-2", "C07", "decode_const_(u8|f64)$"),
    ("C20-1", "C20", "."),
    ("C11-1", "C11", "hcat"),
    ("C12-1", "C12", "u64.*f32"),
    ("C13-1", "C13", "."),
    ("C14-1", "C14", "."),
    ("C15-1", "C15", "incl_step"),
    ("REVERT-e0fc417", "C14", "hash_total|hash_eq_f64"),
    ("REVERT-9cb021e", "C14", "."),
    ("REVERT-adaaf0e", "C01", "c01_l2_(mul|gt|and)_.*reject"),
    ("REVERT-90d77a8", "C07", "missing_type"),
    ("REVERT-877d2f7", "C07", "."),
    ("REVERT-5cf60ec", "C15", "incl_u8_accept|incl_step_u8_accept"),
    ("REVERT-ca4f83d", "C15", "accept_desc"),
    ("REVERT-085e750", "C07", "loader_nopanic"),
    ("REVERT-344eb37", "C07", "decode_const_r64"),
    # round 2 / 3 (sub-agent seeds) and the reverse patches of the later fix: commits
    ("C03-2", "C03", "v2_v2|2drr", "thorough"),
    ("C04-2", "C04", "opa_div_.*_(rs|as)$", "thorough"),
    ("C05-2", "C05", "."),
    ("C11-2", "C11", "vcat"),
    ("C12-2", "C12", "reshape|l2_mat"),
    ("C14-2", "C14", "c14_set_subset"),
    ("C01-2", "C01", "c01_l2_(mul|gt|and)_.*reject"),
    ("C07-3", "C07", "gate|crc"),
    ("C15-2", "C15", "excl_step"),
    ("C20-2", "C20", "."),
    ("REVERT-57157af", "C04", "l1_.*2drab|l1_set2drab|2drab"),
    ("REVERT-8ebb798", "C04", "opa_div_.*_(as|asb)$", "thorough"),
    ("REVERT-32e5644", "C03", "2dvdba|2dvdbA"),
]
VERIF = os.path.dirname(os.path.dirname(os.path.abspath(__file__)))


def main():
    want = set(sys.argv[1:])
    for entry in PLAN:
        seed, prop, only = entry[:3]
        tier = entry[3] if len(entry) > 3 else "quick"
        if want and seed not in want:
            continue
        r = subprocess.run([sys.executable, "-m", "engine.seedtest", seed, prop, "--only", only, "--tier", tier], cwd=VERIF, capture_output=True, text=True)
        try:
            rec = json.loads(r.stdout[r.stdout.index("{"):])
            print("%-16s %-4s only=%-40s exit=%s %s" % (seed, prop, only, rec["exit"], rec["summary"][:110]), flush=True)
        except Exception:
            print("%-16s %-4s FAILED TO RUN: %s" % (seed, prop, (r.stdout + r.stderr)[-300:]), flush=True)


if __name__ == "__main__":
    main()
