"""Confirm the agent-produced seeded changes ourselves in a scratch worktree of /repo (never in /repo itself):
  1. clean tree + demonstration test -> passes     2. change applied: builds, demonstration test fails
  3. change applied: the existing test suite (cargo test --workspace) still passes
The outcome is written to /verif/seeded/<id>/confirmed.json.   usage: python3 -m engine.seedconfirm <worktree> [seed ...]"""
import sys, os, subprocess, json, re, time, shutil

VERIF = os.path.dirname(os.path.dirname(os.path.abspath(__file__)))
ENV = dict(os.environ, CARGO_NET_OFFLINE="true")


def run(cmd, cwd, timeout=3600):
    t0 = time.time()
    p = subprocess.run(cmd, cwd=cwd, env=ENV, capture_output=True, text=True, timeout=timeout)
    return p.returncode, p.stdout + p.stderr, round(time.time() - t0)


def totals(out):
    ps = sum(int(x) for x in re.findall(r"test result: \w+\. (\d+) passed", out))
    fs = sum(int(x) for x in re.findall(r"test result: \w+\. \d+ passed; (\d+) failed", out))
    return ps, fs


def main():
    wt = sys.argv[1]
    seeds = sys.argv[2:] or sorted(d for d in os.listdir(os.path.join(VERIF, "seeded")) if not d.startswith("REVERT-"))
    for seed in seeds:
        sd = os.path.join(VERIF, "seeded", seed)
        demo = os.path.join(sd, "demo.rs")
        if not os.path.exists(demo):
            print(seed, "no demo.rs")
            continue
        name = "seed_demo_" + seed.lower().replace("-", "_")
        dst = os.path.join(wt, "tests", name + ".rs")
        rec = {"worktree_head": subprocess.run(["git", "-C", wt, "rev-parse", "--short", "HEAD"], capture_output=True, text=True).stdout.strip(), "steps": []}
        subprocess.run(["git", "-C", wt, "checkout", "--", "."], check=True)
        shutil.copy(demo, dst)
        try:
            rc, out, w = run(["cargo", "test", "--offline", "-j", "6", "--test", name], wt)
            p0, f0 = totals(out)
            rec["steps"].append({"what": "demonstration on the clean tree", "cmd": "cargo test --offline --test %s" % name, "rc": rc, "passed": p0, "failed": f0, "wall_s": w})
            ap = subprocess.run(["git", "-C", wt, "apply", os.path.join(sd, "patch.diff")], capture_output=True, text=True)
            rec["steps"].append({"what": "git apply patch.diff", "rc": ap.returncode, "err": ap.stderr[:300]})
            rc, out, w = run(["cargo", "test", "--offline", "-j", "6", "--test", name], wt)
            p1, f1 = totals(out)
            rec["steps"].append({"what": "demonstration with the change", "rc": rc, "passed": p1, "failed": f1, "wall_s": w,
                                 "built": "error: could not compile" not in out})
            os.remove(dst)
            rc, out, w = run(["cargo", "test", "--workspace", "--no-fail-fast", "--offline", "-j", "6"], wt, timeout=5400)
            p2, f2 = totals(out)
            rec["steps"].append({"what": "existing test suite with the change", "cmd": "cargo test --workspace --no-fail-fast --offline", "rc": rc,
                                 "passed": p2, "failed": f2, "wall_s": w})
            rec["confirmed"] = bool(f0 == 0 and p0 > 0 and f1 > 0 and rec["steps"][2].get("built") and f2 == 0 and p2 >= 652)
        finally:
            if os.path.exists(dst):
                os.remove(dst)
            subprocess.run(["git", "-C", wt, "checkout", "--", "."], check=True)
        with open(os.path.join(sd, "confirmed.json"), "w") as f:
            json.dump(rec, f, indent=1)
        print(seed, "confirmed" if rec.get("confirmed") else "NOT CONFIRMED", [(s.get("passed"), s.get("failed")) for s in rec["steps"] if "passed" in s], flush=True)


if __name__ == "__main__":
    main()
