"""Data model shared by the property generators and the driver."""


class H:
    """One proof harness (one `#[kani::proof]` function)."""

    def __init__(self, name, text, where, domain="accept", key=None, desc="", functions=None,
                 bounds="", unwind=None, cost=1, tier="quick", assumptions=None, group=None, solver=None):
        self.name = name              # rust fn name, unique inside its module
        self.text = text              # rust source of the fn body (without attributes)
        self.where = where            # "vh" or (crate, relpath) for an in-crate include
        self.domain = domain          # accept | reject | lemma
        self.key = key or name        # entry point + input class: what known findings are keyed on
        self.desc = desc
        self.functions = functions or []
        self.bounds = bounds
        self.unwind = unwind
        self.cost = cost
        self.tier = tier              # quick: always run; thorough: thorough tier only; "rot": rotated by seed in quick
        self.assumptions = assumptions or []
        self.group = group
        self.solver = solver
        self.attrs = []               # extra attribute lines, e.g. further #[kani::stub(..)]
        self.slice = None             # cargo feature list (no default features) or None = default features
        self.path = None              # fully qualified kani harness name, filled in by the driver
        self.pkg = None


ATTR_STUB = "#[kani::stub(std::fmt::format, crate::verif_stub_format)]"


def render(h, stub_path):
    attrs = ["#[kani::proof]"]
    if h.unwind:
        attrs.append("#[kani::unwind(%d)]" % h.unwind)
    if h.solver:
        attrs.append("#[kani::solver(%s)]" % h.solver)
    attrs.append("#[kani::stub(::std::fmt::format, %s)]" % stub_path)
    # (only for harnesses that must continue after an error value has been built: h.stub_loc)
    # MechError::with_compiler_loc is #[track_caller] and reads std::panic::Location::caller(), which Kani does not support;
    # the recorded source location of an error is not the subject of any property
    core_path = "crate" if (isinstance(h.where, tuple) and h.where[0] == "core") else "mech_core"
    if getattr(h, "stub_loc", False):
        attrs.append("#[kani::stub(%s::MechError::with_compiler_loc, verif_stub_loc)]" % core_path)
    if getattr(h, "stub_kind", False):
        # Value::kind() is only used to fill error values on the paths of these harnesses (checked per property); building
        # the recursive ValueKind makes CBMC unwind ValueKind::clone for every Value variant
        attrs.append("#[kani::stub(%s::Value::kind, verif_stub_kind)]" % core_path)
    if getattr(h, "stub_kind_as", None):
        # Value::kind() replaced by the constant element kind of the harness' blocks (only sound where every use of the result is
        # through ValueKind::is_compatible / a test for ValueKind::Reference: Matrix(k, dims) and k behave identically there)
        attrs.append("#[kani::stub(%s::Value::kind, verif_stub_kind_as_%s)]" % (core_path, h.stub_kind_as.lower()))
    attrs.extend(getattr(h, "attrs", []))
    return "\n".join(attrs) + "\npub fn %s() {\n%s\n}\n" % (h.name, h.text)


def module_text(prop, harnesses, prelude="", extra=""):
    """the generated module that a hook file holds: private items of the hooked module are visible through `use super::*`"""
    body = prelude
    for h in harnesses:
        body += render(h, "verif_stub_format") + "\n"
    loc = "  pub fn verif_stub_loc(e: MechError) -> MechError { e }\n" if any(getattr(h, "stub_loc", False) for h in harnesses) else ""
    if any(getattr(h, "stub_kind", False) for h in harnesses):
        loc += "  pub fn verif_stub_kind(_v: &Value) -> ValueKind { ValueKind::Empty }\n"
    for v in sorted(set(getattr(h, "stub_kind_as", None) for h in harnesses) - {None}):
        loc += "  pub fn verif_stub_kind_as_%s(_v: &Value) -> ValueKind { ValueKind::%s }\n" % (v.lower(), v)
    return ("#[allow(warnings)]\npub mod verif_%s {\n  use super::*;\n  use std::mem::forget;\n"
            "  pub fn verif_stub_format(_a: std::fmt::Arguments<'_>) -> String { String::new() }\n"
            "%s%s\n%s\n}\n"
            % (prop.lower(), loc, body, extra))
