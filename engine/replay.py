"""Native confirmation of solver counterexamples.

A failed harness is re-run with Kani's concrete playback, which prints the solver's assignment as an ordinary
`#[test]` (a byte vector per `kani::any()` call).  That test is compiled by plain rustc (no CBMC) against the same
scratch copy of /repo's current sources and executed: the harness body now calls the real code with the concrete
values.  Only if the native run fails the same way is the counterexample reported as a VIOLATION.
"""
import os, re, json, subprocess, time
from . import ws, kani, model

VERIF = ws.VERIF


def _feat_args(slc):
    return ["--no-default-features", "--features", slc] if slc else []


def _install(prop, crate, relp, hname, htext, unwind, solver, prelude, extra, src=None):
    """write the hook file with this one harness; `src` (the model.H it came from) carries the stub attributes, which decide
    whether the harness compiles and what it means"""
    if src is not None:
        import copy
        h = copy.copy(src)
    else:
        h = model.H(hname, htext, (crate, relp), unwind=unwind, solver=solver)
    ws.set_hooks(crate, {relp: model.module_text(prop, [h], prelude, extra)})


def _own_playback(h, unknown, result):
    """Counterexample values from our own CBMC pipeline (kani-driver's `--concrete-playback=print` re-verifies the harness with
    its default flags - no recursion bounds, no kissat - and did not return within an hour on dispatch-level harnesses)."""
    md = result.get("_md")
    run = result.get("_run") or {}
    if not md:
        return None, "no kani metadata kept for the harness"
    want = set(t for t, _ in unknown)
    props = []
    for f in result.get("failed", []):
        d = f.get("desc", "")
        if f.get("category") in ("unwind", "recursion", "cover"):
            continue
        m = re.search(r"VP:[A-Za-z0-9_\-:.]+", d)
        if (m and m.group(0) in want) or (not m and any(t.startswith(("UB:", "PANIC:", "NONTERM:")) or t == "VP:rejected-by-error-return" for t in want)):
            props.append(f["property"])
    if not props:
        props = [f["property"] for f in result.get("failed", []) if f.get("category") not in ("unwind", "recursion", "cover")]
    props = props[:4]
    r = kani.verify_one(md, h.unwind, h.solver, max(600, 2 * int(run.get("timeout", 900))), run.get("rss_gb", 10), run.get("log_dir", "/tmp"),
                        getattr(h, "rec_limit", None), getattr(h, "cbmc_extra", None), getattr(h, "fs_array", None), trace_props=props)
    if r.get("status") != "traced":
        return None, "trace run: " + (r.get("reason") or "no result")
    with open(r["trace_log"], errors="replace") as f:
        text = f.read()
    vals = kani.concrete_values(text)
    if vals is None:
        return None, "no counterexample trace in the trace run (%s)" % r["trace_log"]
    name = "kani_concrete_playback_%s" % h.name
    body = "#[test]\nfn %s() {\n    let concrete_vals: Vec<Vec<u8>> = vec![\n%s    ];\n    kani::concrete_playback_run(concrete_vals, %s);\n}" % (
        name, "".join("        vec![%s],\n" % ", ".join(str(b) for b in v) for v in vals), h.name)
    return [(body, name)], ""


def confirm(prop, h, unknown, result, tier, plan):
    """-> (replay_path, reproduced?, detail)"""
    t0 = time.time()
    rdir = os.path.join(VERIF, "replay", prop)
    os.makedirs(rdir, exist_ok=True)
    rpath = os.path.join(rdir, h.name + ".json")
    crate, relp = h.where
    prelude = "  use paste::paste;\n" + plan.get("incrate_prelude", {}).get((crate, relp), "")
    _install(prop, crate, relp, h.name, h.text, h.unwind, h.solver, prelude, "", src=h)
    tests, err = _own_playback(h, unknown, result)
    rec = {"property": prop, "harness": h.path, "harness_name": h.name, "package": h.pkg, "where": [crate, relp], "slice": h.slice,
           "key": h.key, "domain": h.domain, "desc": h.desc, "tags": [t for t, _ in unknown], "details": [d for _, d in unknown],
           "harness_source": h.text, "unwind": h.unwind, "solver": h.solver, "prelude": prelude, "playback_tests": [], "native": [],
           "attrs": list(getattr(h, "attrs", []) or []), "stub_loc": bool(getattr(h, "stub_loc", False)), "stub_kind": bool(getattr(h, "stub_kind", False))}
    if not tests:
        rec["error"] = err
        with open(rpath, "w") as f:
            json.dump(rec, f, indent=1)
        return rpath, False, err
    rec["playback_tests"] = [t for t, _ in tests]
    ok, detail = run_native(prop, rec, tests)
    rec["reproduced"] = ok
    rec["wall_s"] = round(time.time() - t0, 1)
    with open(rpath, "w") as f:
        json.dump(rec, f, indent=1)
    return rpath, ok, detail


def solver_only_record(prop, h, unknown, result, plan):
    """record for a counterexample that was not replayed natively (replay cap reached): harness source + failed checks; it can be
    replayed later with `python3 -m engine.check <prop> --only <harness>`"""
    rdir = os.path.join(VERIF, "replay", prop)
    os.makedirs(rdir, exist_ok=True)
    rpath = os.path.join(rdir, h.name + ".json")
    crate, relp = h.where
    rec = {"property": prop, "harness": h.path, "harness_name": h.name, "package": h.pkg, "where": [crate, relp], "slice": h.slice,
           "key": h.key, "domain": h.domain, "desc": h.desc, "tags": [t for t, _ in unknown], "details": [d for _, d in unknown],
           "harness_source": h.text, "unwind": h.unwind, "solver": h.solver, "native": [], "reproduced": None,
           "note": "solver counterexample only: the native replay budget of this run (VERIF_MAX_REPLAYS) was used on other harnesses"}
    with open(rpath, "w") as f:
        json.dump(rec, f, indent=1)
    return rpath


def run_native(prop, rec, tests):
    """Put the playback tests next to the harness and run them with `cargo kani playback` (dev, then release)."""
    crate, relp = rec["where"]
    body = "".join(text + "\n" for text, name in tests)
    names = [name for text, name in tests]
    src = model.H(rec["harness_name"], rec["harness_source"], (crate, relp), unwind=rec.get("unwind"), solver=rec.get("solver"))
    src.attrs = rec.get("attrs", [])
    src.stub_loc = rec.get("stub_loc", False)
    src.stub_kind = rec.get("stub_kind", False)
    _install(prop, crate, relp, rec["harness_name"], rec["harness_source"], rec.get("unwind"), rec.get("solver"),
             rec.get("prelude", ""), body, src=src)
    env = dict(os.environ)
    env.update(kani.KANI_ENV)
    tags = rec["tags"]
    all_ok = False
    details = []
    for profile in ("dev",):      # `cargo kani playback` of Kani 0.68 has no --release; dev is the profile Kani models
        for name in names:
            cmd = ["cargo", "kani", "playback", "-Z", "concrete-playback", "-p", rec["package"]] + _feat_args(rec.get("slice"))
            if profile == "release":
                cmd.append("--release")
            cmd += ["--", name]
            try:
                p = subprocess.run(cmd, cwd=ws.WS, env=env, capture_output=True, text=True, timeout=3600)
            except subprocess.TimeoutExpired:
                details.append("%s/%s: timeout" % (profile, name))
                continue
            out = p.stdout + p.stderr
            ran = re.search(r"running (\d+) test", out)
            failed = ("panicked at" in out or re.search(r"test result: FAILED", out) or "overflowed its stack" in out
                      or "SIGABRT" in out or "SIGSEGV" in out)
            hit = [t for t in tags if t.startswith("VP:") and t in out]
            # a repo panic named by the solver (PANIC:<message>) counts when the native run panics with that message
            hit += [t for t in tags if t.startswith("PANIC:") and len(t) > 12 and t[6:46].split(" @")[0].strip() in out]
            rec["native"].append({"profile": profile, "test": name, "rc": p.returncode,
                                  "panicked": bool(failed), "tags_seen": hit, "tail": out[-1500:]})
            if failed and (hit or not any(t.startswith(("VP:", "PANIC:")) for t in tags)):
                all_ok = True
                details.append("%s/%s: reproduced" % (profile, name))
            elif not ran:
                details.append("%s/%s: did not build/run" % (profile, name))
            else:
                details.append("%s/%s: passed natively" % (profile, name))
    return all_ok, "; ".join(details)


def replay_file(path):
    with open(path) as f:
        rec = json.load(f)
    tests = [(t, re.search(r"fn\s+(kani_concrete_playback_\w+)", t).group(1)) for t in rec.get("playback_tests", [])]
    if not tests:
        print("no playback test recorded in", path)
        return 2
    ws.lock()
    ws.sync()
    rec["native"] = []
    ok, detail = run_native(rec["property"], rec, tests)
    print(detail)
    for n in rec["native"]:
        print("---", n["profile"], n["test"], "panicked" if n["panicked"] else "ok")
        print(n["tail"][-600:])
    return 1 if ok else 0
