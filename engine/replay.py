"""Native confirmation of solver counterexamples.

A failed harness is re-run with Kani's concrete playback, which prints the solver's assignment as an ordinary
`#[test]` (a byte vector per `kani::any()` call).  That test is compiled by plain rustc (no CBMC) against the same
scratch copy of /repo's current sources and executed: the harness body now calls the real code with the concrete
values.  Only if the native run fails the same way is the counterexample reported as a VIOLATION.
"""
import os, re, json, subprocess, time
from . import ws, kani, model

VERIF = ws.VERIF


def _feat_args(slc):
    return ["--no-default-features", "--features", slc] if slc else []


def _install(prop, crate, relp, hname, htext, unwind, solver, prelude, extra):
    h = model.H(hname, htext, (crate, relp), unwind=unwind, solver=solver)
    ws.set_hooks(crate, {relp: model.module_text(prop, [h], prelude, extra)})


def _kani_print(pkg, path, slc):
    cmd = ["cargo", "kani", "-p", pkg, "-Z", "stubbing", "-Z", "concrete-playback", "--concrete-playback=print",
           "--harness", path, "--exact"] + _feat_args(slc)
    env = dict(os.environ)
    env.update(kani.KANI_ENV)
    try:
        p = subprocess.run(cmd, cwd=ws.WS, env=env, capture_output=True, text=True, timeout=3600)
    except subprocess.TimeoutExpired:
        return None, "concrete playback run timed out"
    out = p.stdout
    tests = re.findall(r"(#\[test\]\s*fn\s+(kani_concrete_playback_\w+)\s*\(\)\s*\{.*?\n\})", out, re.S)
    if not tests:
        return None, "no concrete playback test printed"
    return tests, ""


def confirm(prop, h, unknown, result, tier, plan):
    """-> (replay_path, reproduced?, detail)"""
    t0 = time.time()
    rdir = os.path.join(VERIF, "replay", prop)
    os.makedirs(rdir, exist_ok=True)
    rpath = os.path.join(rdir, h.name + ".json")
    crate, relp = h.where
    prelude = "  use paste::paste;\n" + plan.get("incrate_prelude", {}).get((crate, relp), "")
    _install(prop, crate, relp, h.name, h.text, h.unwind, h.solver, prelude, "")
    tests, err = _kani_print(h.pkg, h.path, h.slice)
    rec = {"property": prop, "harness": h.path, "harness_name": h.name, "package": h.pkg, "where": [crate, relp], "slice": h.slice,
           "key": h.key, "domain": h.domain, "desc": h.desc, "tags": [t for t, _ in unknown], "details": [d for _, d in unknown],
           "harness_source": h.text, "unwind": h.unwind, "solver": h.solver, "prelude": prelude, "playback_tests": [], "native": []}
    if not tests:
        rec["error"] = err
        with open(rpath, "w") as f:
            json.dump(rec, f, indent=1)
        return rpath, False, err
    rec["playback_tests"] = [t for t, _ in tests]
    ok, detail = run_native(prop, rec, tests)
    rec["reproduced"] = ok
    rec["wall_s"] = round(time.time() - t0, 1)
    with open(rpath, "w") as f:
        json.dump(rec, f, indent=1)
    return rpath, ok, detail


def run_native(prop, rec, tests):
    """Put the playback tests next to the harness and run them with `cargo kani playback` (dev, then release)."""
    crate, relp = rec["where"]
    body = "".join(text + "\n" for text, name in tests)
    names = [name for text, name in tests]
    _install(prop, crate, relp, rec["harness_name"], rec["harness_source"], rec.get("unwind"), rec.get("solver"),
             rec.get("prelude", ""), body)
    env = dict(os.environ)
    env.update(kani.KANI_ENV)
    tags = rec["tags"]
    all_ok = False
    details = []
    for profile in ("dev", "release"):
        for name in names:
            cmd = ["cargo", "kani", "playback", "-Z", "concrete-playback", "-p", rec["package"]] + _feat_args(rec.get("slice"))
            if profile == "release":
                cmd.append("--release")
            cmd += ["--", name]
            try:
                p = subprocess.run(cmd, cwd=ws.WS, env=env, capture_output=True, text=True, timeout=3600)
            except subprocess.TimeoutExpired:
                details.append("%s/%s: timeout" % (profile, name))
                continue
            out = p.stdout + p.stderr
            ran = re.search(r"running (\d+) test", out)
            failed = ("panicked at" in out or re.search(r"test result: FAILED", out) or "overflowed its stack" in out
                      or "SIGABRT" in out or "SIGSEGV" in out)
            hit = [t for t in tags if t.startswith("VP:") and t in out]
            rec["native"].append({"profile": profile, "test": name, "rc": p.returncode,
                                  "panicked": bool(failed), "tags_seen": hit, "tail": out[-1500:]})
            if failed and (hit or not any(t.startswith("VP:") for t in tags)):
                all_ok = True
                details.append("%s/%s: reproduced" % (profile, name))
            elif not ran:
                details.append("%s/%s: did not build/run" % (profile, name))
            else:
                details.append("%s/%s: passed natively" % (profile, name))
    return all_ok, "; ".join(details)


def replay_file(path):
    with open(path) as f:
        rec = json.load(f)
    tests = [(t, re.search(r"fn\s+(kani_concrete_playback_\w+)", t).group(1)) for t in rec.get("playback_tests", [])]
    if not tests:
        print("no playback test recorded in", path)
        return 2
    ws.lock()
    ws.sync()
    rec["native"] = []
    ok, detail = run_native(rec["property"], rec, tests)
    print(detail)
    for n in rec["native"]:
        print("---", n["profile"], n["test"], "panicked" if n["panicked"] else "ok")
        print(n["tail"][-600:])
    return 1 if ok else 0
