"""Native confirmation of solver counterexamples.

A failed harness is re-run with Kani's concrete playback, which prints the solver's assignment as an ordinary
`#[test]` (a byte vector per `kani::any()` call).  That test is compiled by plain rustc (no CBMC) against the same
scratch copy of /repo's current sources and executed: the harness body now calls the real code with the concrete
values.  Only if the native run fails the same way is the counterexample reported as a VIOLATION.
"""
import os, re, json, subprocess, time
from . import ws, kani

VERIF = ws.VERIF


def _kani_print(h):
    cmd = ["cargo", "kani", "-p", h.pkg, "-Z", "stubbing", "-Z", "concrete-playback", "--concrete-playback=print",
           "--harness", h.path, "--exact"]
    env = dict(os.environ)
    env.update(kani.KANI_ENV)
    try:
        p = subprocess.run(cmd, cwd=ws.WS, env=env, capture_output=True, text=True, timeout=3600)
    except subprocess.TimeoutExpired:
        return None, "concrete playback run timed out"
    out = p.stdout
    tests = re.findall(r"(#\[test\]\s*fn\s+(kani_concrete_playback_\w+)\s*\(\)\s*\{.*?\n\})", out, re.S)
    if not tests:
        return None, "no concrete playback test printed"
    return tests, ""


def confirm(prop, h, unknown, result, tier):
    """-> (replay_path, reproduced?, detail)"""
    t0 = time.time()
    rdir = os.path.join(VERIF, "replay", prop)
    os.makedirs(rdir, exist_ok=True)
    rpath = os.path.join(rdir, h.name + ".json")
    tests, err = _kani_print(h)
    rec = {"property": prop, "harness": h.path, "package": h.pkg, "where": h.where, "key": h.key, "domain": h.domain,
           "desc": h.desc, "tags": [t for t, _ in unknown], "details": [d for _, d in unknown],
           "harness_source": h.text, "playback_tests": [], "native": []}
    if not tests:
        rec["error"] = err
        with open(rpath, "w") as f:
            json.dump(rec, f, indent=1)
        # UB-class failures have no native reproduction by nature
        return rpath, False, err
    rec["playback_tests"] = [t for t, _ in tests]
    ok, detail = run_native(h.pkg, h.where, h.path, tests, [t for t, _ in unknown], rec)
    rec["reproduced"] = ok
    rec["wall_s"] = round(time.time() - t0, 1)
    with open(rpath, "w") as f:
        json.dump(rec, f, indent=1)
    return rpath, ok, detail


def run_native(pkg, where, hpath, tests, tags, rec):
    """Write the playback tests next to the harness and run them with `cargo kani playback` (dev, then release)."""
    modpath = hpath.rsplit("::", 1)[0]
    fname = hpath.rsplit("::", 1)[1]
    body = ""
    names = []
    for text, name in tests:
        names.append(name)
        body += text + "\n"
    pb = os.path.join(ws.GEN, "playback_current.rs")
    if where == "vh":
        # playback module inside the property's module file is not possible without editing it; put it in its own module
        prop_mod = modpath.split("::")[0]
        text = "#![allow(warnings)]\nuse crate::%s::*;\n%s" % (prop_mod, body)
        ws.write_if_changed(os.path.join(ws.WS, "vh", "src", "playback.rs"), text)
        lib = os.path.join(ws.WS, "vh", "src", "lib.rs")
        with open(lib) as f:
            l = f.read()
        if "mod playback;" not in l:
            ws.write_if_changed(lib, l + "#[cfg(kani)] mod playback;\n")
    else:
        # in-crate: the generated module file gets the tests appended inside the module
        crate, relp = where
        gen = None
        for fn in os.listdir(ws.GEN):
            if fn.startswith(modpath.split("::")[-1].replace("verif_", "") + "__" + crate + "__"):
                with open(os.path.join(ws.GEN, fn)) as f:
                    if ("pub fn %s()" % fname) in f.read():
                        gen = os.path.join(ws.GEN, fn)
        if not gen:
            return False, "generated file for %s not found" % hpath
        with open(gen) as f:
            t = f.read()
        t = re.sub(r"\n// PLAYBACK-BEGIN.*?// PLAYBACK-END\n", "\n", t, flags=re.S)
        idx = t.rstrip().rfind("}")
        t = t[:idx] + "\n// PLAYBACK-BEGIN\n" + body + "// PLAYBACK-END\n}\n"
        ws.write_if_changed(gen, t)
    env = dict(os.environ)
    env.update(kani.KANI_ENV)
    all_ok = False
    details = []
    for profile in ("dev", "release"):
        for name in names:
            cmd = ["cargo", "kani", "playback", "-Z", "concrete-playback", "-p", pkg]
            if profile == "release":
                cmd.append("--release")
            cmd += ["--", name]
            try:
                p = subprocess.run(cmd, cwd=ws.WS, env=env, capture_output=True, text=True, timeout=3600)
            except subprocess.TimeoutExpired:
                details.append("%s/%s: timeout" % (profile, name))
                continue
            out = p.stdout + p.stderr
            ran = re.search(r"running (\d+) test", out)
            failed = "panicked at" in out or re.search(r"test result: FAILED", out)
            hit = [t for t in tags if t.startswith("VP:") and t in out]
            rec["native"].append({"profile": profile, "test": name, "rc": p.returncode,
                                  "panicked": bool(failed), "tags_seen": hit, "tail": out[-1500:]})
            if failed and (hit or not any(t.startswith("VP:") for t in tags)):
                all_ok = True
                details.append("%s/%s: reproduced" % (profile, name))
            elif not ran:
                details.append("%s/%s: did not build/run" % (profile, name))
            else:
                details.append("%s/%s: passed natively" % (profile, name))
    return all_ok, "; ".join(details)


def replay_file(path):
    with open(path) as f:
        rec = json.load(f)
    where = rec["where"]
    if isinstance(where, list):
        where = tuple(where)
    tests = [(t, re.search(r"fn\s+(kani_concrete_playback_\w+)", t).group(1)) for t in rec.get("playback_tests", [])]
    if not tests:
        print("no playback test recorded in", path)
        return 2
    rec2 = {"native": []}
    ok, detail = run_native(rec["package"], where, rec["harness"], tests, rec["tags"], rec2)
    print(detail)
    for n in rec2["native"]:
        print("---", n["profile"], n["test"], "panicked" if n["panicked"] else "ok")
        print(n["tail"][-600:])
    return 1 if ok else 0
